#!/venv/bin/python
"""Run every registered check (quick by default) on /repo, validate the
evidence files against the schema, print a timing table.
usage: tools/runall.py [--tier quick|thorough] [--seed N] [ids...]"""
import json
import os
import subprocess
import sys
import time

VERIF = os.path.dirname(os.path.dirname(os.path.abspath(__file__)))
args = sys.argv[1:]
tier = 'quick'
seed = None
if '--tier' in args:
    i = args.index('--tier'); tier = args[i + 1]; del args[i:i + 2]
if '--seed' in args:
    i = args.index('--seed'); seed = args[i + 1]; del args[i:i + 2]
m = json.load(open(os.path.join(VERIF, 'MANIFEST.json')))
rows = []
for c in m['checks']:
    pid = c['property_id']
    if args and pid not in args:
        continue
    cmd = c['quick_cmd'] if tier == 'quick' else c['thorough_cmd']
    env = dict(os.environ)
    if seed is not None:
        env['VERIF_SEED'] = seed
    ev = os.path.join(VERIF, 'evidence', os.path.basename(c['evidence_file']))
    if os.path.exists(ev):
        os.unlink(ev)
    t0 = time.time()
    r = subprocess.run(cmd, shell=True, cwd=VERIF, env=env, capture_output=True, text=True)
    dt = time.time() - t0
    viol = [l for l in r.stdout.splitlines() if l.startswith('VIOLATION')]
    kf = [l for l in r.stdout.splitlines() if l.startswith('KNOWN-FINDING')]
    ok_ev = 'missing'
    if os.path.exists(ev):
        v = subprocess.run(['python3-vt', '-c', 'import json,jsonschema,sys; e=json.load(open(sys.argv[1])); jsonschema.validate(e, json.load(open("/root/.vp/EVIDENCE.schema.json"))); print(e["level"])', ev], capture_output=True, text=True)
        ok_ev = v.stdout.strip() if v.returncode == 0 else 'INVALID ' + v.stderr[-200:]
        if ok_ev != c['level_claimed']['category']:
            ok_ev = f'LEVEL MISMATCH {ok_ev} vs {c["level_claimed"]["category"]}'
    rows.append((pid, r.returncode, len(viol), len(kf), round(dt, 1), ok_ev))
    print(rows[-1], flush=True)
    if r.returncode not in (0,):
        print(r.stdout[-1500:], r.stderr[-800:])
print('total wall', round(sum(r[4] for r in rows)), 's; failures:', [r[0] for r in rows if r[1] != 0 or not str(r[5]).startswith(('exploration', 'model', 'fault'))])
