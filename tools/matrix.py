#!/venv/bin/python
"""Rewrite the detection matrix in DESIGN.md (between the MATRIX markers)
from seeded/*/meta.json."""
import json
import os
import re

VERIF = os.path.dirname(os.path.dirname(os.path.abspath(__file__)))
rows = []
for sid in sorted(os.listdir(os.path.join(VERIF, 'seeded'))):
    mp = os.path.join(VERIF, 'seeded', sid, 'meta.json')
    if not os.path.exists(mp):
        continue
    m = json.load(open(mp))
    det = m.get('detected_by', {})
    caught = sorted(k for k, v in det.items() if v.get('detected'))
    missed = sorted(k for k, v in det.items() if not v.get('detected'))
    notes = (m.get('needs_to_manifest') or '').strip().splitlines()
    what = ''
    for l in notes:
        l = l.strip('# ').strip()
        if l and not l.lower().startswith(('variant', 'c0', 'c1')):
            what = l
            break
    first = ''
    for k in caught:
        first = det[k].get('first', '').strip()
        if first:
            break
    rows.append((sid, m['breaks_property'], what[:110], ', '.join(caught) or '-',
                 ', '.join(missed) or '-', first[:120].replace('|', '/')))
lines = ['| seeded change | breaks | what it is | caught by (check:tier) | tried, not caught by | first line of the report |',
         '|---|---|---|---|---|---|']
for r in rows:
    lines.append('| ' + ' | '.join(r) + ' |')
table = '\n'.join(lines)
p = os.path.join(VERIF, 'DESIGN.md')
s = open(p).read()
s = re.sub(r'(<!-- MATRIX-BEGIN -->\n).*?(\n<!-- MATRIX-END -->)',
           lambda m: m.group(1) + table + m.group(2), s, flags=re.S)
open(p, 'w').write(s)
print(f'{len(rows)} rows;',
      sum(1 for r in rows if r[3] != '-'), 'caught by at least one check')
