#!/venv/bin/python
"""Confirm / store / test the property-breaking changes written by sub-agents.

  tools/seed.py confirm C08 a      apply /tmp/seed/C08/a.patch.diff in a scratch worktree of /repo HEAD,
                                   run the test suite, run the demo on clean and patched sources,
                                   and if everything holds store it as /verif/seeded/C08a/
  tools/seed.py test C08a [C08 C07 ...] [--tier quick]
                                   run checks with DDV_REPO pointing at a scratch worktree with the patch
  tools/seed.py testall [--tier quick]
"""
import json
import os
import shutil
import subprocess
import sys
import tempfile
import time

VERIF = os.path.dirname(os.path.dirname(os.path.abspath(__file__)))
SEEDED = os.path.join(VERIF, 'seeded')
PY = '/venv/bin/python'


def sh(cmd, **kw):
    return subprocess.run(cmd, shell=isinstance(cmd, str), text=True,
                          capture_output=True, **kw)


class Worktree:

    def __init__(self, patch=None):
        self.patch = patch

    def __enter__(self):
        self.dir = tempfile.mkdtemp(prefix='ddv-wt-', dir='/tmp')
        os.rmdir(self.dir)
        r = sh(['git', '-C', '/repo', 'worktree', 'add', '-q', '--detach', self.dir, 'HEAD'])
        assert r.returncode == 0, r.stderr
        # also carry uncommitted changes of /repo? no: HEAD only
        if self.patch:
            r = sh(['git', '-C', self.dir, 'apply', self.patch])
            if r.returncode != 0:
                r = sh(['git', '-C', self.dir, 'apply', '--3way', self.patch])
                if r.returncode != 0:
                    self.__exit__()
                    raise RuntimeError('patch does not apply: ' + r.stderr)
        return self.dir

    def __exit__(self, *a):
        sh(['git', '-C', '/repo', 'worktree', 'remove', '--force', self.dir])
        shutil.rmtree(self.dir, ignore_errors=True)
        sh(['git', '-C', '/repo', 'worktree', 'prune'])


def confirm(pid, var):
    src = os.path.join(os.environ.get('SEED_SRC', '/tmp/seed'), pid)
    patch = f'{src}/{var}.patch.diff'
    demo = f'{src}/{var}.demo.py'
    out = {'property': pid, 'variant': var}
    with Worktree() as clean:
        r = sh([PY, demo, clean], timeout=300)
        out['demo_clean_exit'] = r.returncode
        clean_tail = (r.stdout + r.stderr)[-600:]
    with Worktree(patch) as wt:
        r = sh(f'cd {wt} && {PY} -m pytest -q -p no:cacheprovider 2>&1 | tail -1')
        out['suite'] = r.stdout.strip()
        r = sh([PY, demo, wt], timeout=300)
        out['demo_patched_exit'] = r.returncode
        out['demo_patched_tail'] = (r.stdout + r.stderr)[-800:]
        # refreshed diff against current HEAD
        newdiff = sh(['git', '-C', wt, 'diff', 'HEAD']).stdout
    ok = ('117 passed' in out['suite'] and out['demo_clean_exit'] == 0
          and out['demo_patched_exit'] != 0)
    out['confirmed'] = ok
    print(json.dumps(out, indent=1))
    if not ok:
        print('clean demo tail:', clean_tail)
        return 1
    d = os.path.join(SEEDED, f'{pid}{var}')
    os.makedirs(d, exist_ok=True)
    with open(os.path.join(d, 'patch.diff'), 'w') as f:
        f.write(newdiff)
    shutil.copy(demo, os.path.join(d, 'demo.py'))
    notes = open(f'{src}/{var}.notes.md').read() if os.path.exists(f'{src}/{var}.notes.md') else ''
    head = sh(['git', '-C', '/repo', 'rev-parse', '--short', 'HEAD']).stdout.strip()
    meta = {
        'id': f'{pid}{var}',
        'breaks_property': pid,
        'needs_to_manifest': notes,
        'confirmed_against_repo_head': head,
        'ran': {
            'suite_with_patch': out['suite'],
            'demo_on_clean_exit': out['demo_clean_exit'],
            'demo_on_patched_exit': out['demo_patched_exit'],
            'commands': [
                'git worktree add <scratch> HEAD; git apply patch.diff',
                'cd <scratch> && /venv/bin/python -m pytest -q -p no:cacheprovider',
                '/venv/bin/python demo.py <clean worktree>; /venv/bin/python demo.py <patched worktree>'
            ]
        },
        'detected_by': {}
    }
    with open(os.path.join(d, 'meta.json'), 'w') as f:
        json.dump(meta, f, indent=1)
    return 0


def test(sid, props, tier):
    d = os.path.join(SEEDED, sid)
    meta = json.load(open(os.path.join(d, 'meta.json')))
    if not props:
        props = [meta['breaks_property']]
    res = {}
    with Worktree(os.path.join(d, 'patch.diff')) as wt:
        for p in props:
            env = dict(os.environ, DDV_REPO=wt, VERIF_TIER=tier,
                       DDV_EVIDENCE_DIR=tempfile.mkdtemp(prefix='ddv-ev-', dir='/tmp'),
                       DDV_REPLAY_DIR=tempfile.mkdtemp(prefix='ddv-rp-', dir='/tmp'))
            t0 = time.time()
            r = sh([os.path.join(VERIF, 'vrun'), 'check', p, '--tier', tier], env=env, timeout=7200)
            lines = [l for l in r.stdout.splitlines()]
            viol = [l for l in lines if l.startswith('VIOLATION')]
            res[p] = {'exit': r.returncode, 'violations': len(viol),
                      'first': next((l for l in lines if l.startswith('  ')), '')[:300],
                      'tail': lines[-1][:300] if lines else r.stderr[-300:], 'wall': round(time.time() - t0, 1)}
            shutil.rmtree(env['DDV_EVIDENCE_DIR'], ignore_errors=True)
            shutil.rmtree(env['DDV_REPLAY_DIR'], ignore_errors=True)
    meta.setdefault('detected_by', {})
    for p, v in res.items():
        meta['detected_by'][f'{p}:{tier}'] = {'detected': v['exit'] == 1, **v}
    with open(os.path.join(d, 'meta.json'), 'w') as f:
        json.dump(meta, f, indent=1)
    print(sid, json.dumps(res, indent=1))
    return res


def main(argv):
    tier = 'quick'
    if '--tier' in argv:
        i = argv.index('--tier')
        tier = argv[i + 1]
        del argv[i:i + 2]
    if argv[1] == 'confirm':
        return confirm(argv[2], argv[3])
    if argv[1] == 'test':
        test(argv[2], argv[3:], tier)
        return 0
    if argv[1] == 'testall':
        only = [a for a in argv[2:] if a.startswith('from=')]
        start = only[0][5:] if only else ''
        for sid in sorted(os.listdir(SEEDED)):
            if sid < start:
                continue
            if os.path.exists(os.path.join(SEEDED, sid, 'meta.json')):
                try:
                    test(sid, [a for a in argv[2:] if not a.startswith('from=')], tier)
                except Exception as e:
                    print(sid, 'ERROR', repr(e)[:300])
        return 0
    print(__doc__)
    return 2


if __name__ == '__main__':
    sys.exit(main(sys.argv))
