#!/venv/bin/python
"""Sizing helper: executions and CPU seconds per scenario of a check's menu.
usage: tools/size.py c05 [tier] [cap]"""
import importlib, sys, time, os
sys.path.insert(0, os.path.dirname(os.path.dirname(os.path.abspath(__file__))))
os.environ.setdefault('PYTHONHASHSEED', '0')
from ddv import common, sched, explore
mod = importlib.import_module('ddv.checks.' + sys.argv[1])
tier = sys.argv[2] if len(sys.argv) > 2 else 'quick'
cap = int(sys.argv[3]) if len(sys.argv) > 3 else 3000
menu = mod.menu(tier)
if hasattr(mod, 'pruned'):
    menu = mod.pruned(menu)
def one(i):
    scn = menu[i]
    t = time.time()
    sched._VISITED.clear()
    n, capped = explore.explore(lambda ch: sched.run_once(scn, ch), mod.budgets_of(scn), lambda ch, x: None, max_execs=cap)
    return scn['name'], mod.budgets_of(scn), n, capped, round(time.time() - t, 1)
res = common.pmap(one, list(range(len(menu))), init=sched._init_worker)
tot = 0
for r in sorted(res, key=lambda r: -r[4])[:25]:
    print(r)
    tot += r[4]
print('total cpu s', round(tot), 'scenarios', len(menu), 'executions', sum(r[2] for r in res))
