#!/venv/bin/python
"""Regenerate /verif/MANIFEST.json from the table below (keeps it valid)."""
import json
import os

VERIF = os.path.dirname(os.path.dirname(os.path.abspath(__file__)))

CHECKS = {
    'C07': dict(
        level='exploration', engine='ENUM',
        technique='bounded-exhaustive enumeration of token trees x column offsets x 4 renderers; independent tokenizer + re-parse as oracle',
        text='All trees with <=5 (thorough 6) nodes and all two-tree forests with <=4 (5) nodes over 23 lexical-class leaves (12 classes for 6-node trees) (long/hyphenated tokens, literals and quoted symbols with blanks, parentheses, semicolons, newlines, doubled quotes, comments, empty lists) plus a column sweep that puts every leaf class at every start column 3..95 are parsed by ddSMT and rendered by all four real renderers; every rendering must have the source token sequence (independent tokenizer) and re-parse to the same structure. The space is enumerated completely (360 k sources, 1.4 M renderings quick).',
        note='Trusted: reference tokenizer ddv/sexp.py; leaves are class representatives; sources go through ddSMT\'s own reader (C08 checks that reader).',
        design='3/C07'),
    'C11': dict(
        level='exploration', engine='ENUM',
        technique='bounded-exhaustive enumeration of (base forest, simplification) pairs against a recursive nested-list model, with object-identity and work-budget oracles',
        text='Every forest of <=2 trees with <=6 (thorough 7) nodes over two leaf texts, every antichain of <=2 (3) id-keyed positions with 7 replacement kinds (deletion, fresh/existing leaf, compound terms, own child, BinaryReduction tuple), every structural key from {a,(a),(a b)} with replacements that contain the key once or twice, id+structural and double structural combinations, all ordered pairs of pending id-keyed simplifications, and declaration insertion over all command sequences of length <=3 are run through the real mutator_utils.apply_simp / nodes.substitute / smtlib.introduce_variables (1.5 M cases quick) and compared with an independent recursive model; untouched subtrees must be the identical objects, the base must be unchanged, and each call must stay within a deterministic count budget (catches re-entering a replacement). Function inlining and let substitution are driven through the real InlineDefinedFuns / LetSubstitution mutators for every body with <=4 (5) nodes over {a,b,c} and 1-2 actual arguments that mention their own or the other formal parameter, against a simultaneous reference substitution (6.7 k proposals quick).',
        note='Trusted: the nested-list model in ddv/checks/c11.py. Id replacements that contain or equal a structural key are not generated (statement ambiguous); tuple replacements only alone (as BinaryReduction uses them).',
        design='3/C11'),
    'C12': dict(
        level='exploration', engine='ENUM',
        technique='bounded-exhaustive enumeration of trees, DAG sharing patterns and tree pairs against a nested-list model; real fork-pool round trip; exhaustive interleaving exploration of id allocation under a baton scheduler',
        text='All trees with <=5 (thorough 6) nodes over 7 leaf texts (ASCII, empty, accented, non-BMP, and the pickle marker bytes "(" and "L"), all ordered pairs of trees <=4 (5) nodes, all forests <=5 nodes and every sharing pattern of trees <=6 (7) nodes are pushed through ==, hash, comparison with str/None/(), copy.deepcopy, pickle, dfs/bfs/filter_nodes with every max_depth and the counters, and compared with an independent nested-list model; every tree <=4 nodes goes to the workers of a real fork-based Pool(2) and back while parent and workers keep allocating ids (ids and hashes per position must agree, worker-created ids must not clash); all interleavings of 2x2 allocations of the real Node.__get_id over an instrumented lock/counter are executed under a baton scheduler (55 k schedules) and must hand out distinct ids.',
        note='Trusted: nested-list models in ddv/checks/c12.py; leaf texts are 7 representatives, not all of Unicode; fork start method and one PYTHONHASHSEED for parent and workers.',
        design='3/C12'),
    'C08': dict(
        level='exploration', engine='ENUM',
        technique='bounded-exhaustive enumeration of lexeme sequences x separators x nesting against an independent reference reader',
        text='Every text built from <=3 (thorough: <=4) lexeme representatives (26 atoms incl. all literal/quoted-symbol corner cases, 4 small lists, 3 comments), every separator choice from {SP,TAB,LF,CR,CRLF,SPSP,adjacent where unambiguous}, at nesting depth 0/1/2 with head/tail neighbours and leading/trailing white space is parsed by the real nodeio.parse_smtlib and compared with an independent SMT-LIB reader; the space is enumerated completely (11 M texts quick), so any reader slip that shows within three adjacent lexemes is found, not sampled.',
        note='Trusted: the reference tokenizer/reader ddv/sexp.py (written from the SMT-LIB 2.6 lexicon, self-tested). Lexemes are class representatives, not all Unicode; texts with unbalanced parentheses or unterminated literals are outside the statement.',
        design='3/C08'),
}

CHECKS['C13'] = dict(
    level='exploration', engine='ENUM',
    technique='bounded-exhaustive enumeration of all DAG sharing patterns through nodes.reduplicate (function part); ids at every generator construction along all explored runs (history part, SCHED)',
    text='Function part: every forest of <=3 trees with <=6 (thorough 7) nodes with every sharing pattern (which equal subtrees are one object, incl. shared empty lists and 2-of-3 sharings; 30 k DAGs quick) goes through the real nodes.reduplicate; ids must be pairwise distinct afterwards, the token sequence unchanged, and nodes that were unique keep their identity.',
    note='Trusted: DAG enumerator and oracle in ddv/checks/c13.py.',
    design='3/C13')

CHECKS['C09'] = dict(
    level='exploration', engine='ENUM',
    technique='exhaustive decision-table enumeration of comparison options x run outcomes through the real checker with real subprocesses, against an independent statement of the rule',
    text='(a) all 16 384 cases of checker.matches_golden (4 flags/match strings x 32 golden x 32 run outcomes); (b) the wiring in do_golden_runs/check() with real sh commands whose exit code and streams are scripted per candidate: the option combinations of --ignore-output/--ignore-out/--ignore-err/--match-out/--match-err x cross-check absent/present with its three options x --unchecked, each against 18 outcome classes per command (25 k check() calls quick, every combination in thorough), incl. which commands were actually run; (c) the argv seen by the command for 4 input extensions x 0-2 extra arguments x cross-check arguments through tmpfiles.init/copy_binaries/check_exprs; (d) with no time limit configured and one of the two commands taking 2.5 s, the candidate that reproduces both golden runs must be accepted and a non-matching one rejected (the limits are derived from the right golden run).',
    note='Trusted: the acceptance rule as written in ddv/checks/c09.py from the property statement. Explicit --timeout 120 keeps machine load from turning runs into timeouts (timeouts are C10).',
    design='3/C09')

CHECKS['C14'] = dict(
    level='exploration', engine='ENUM',
    technique='bounded-exhaustive enumeration of option sequences x theory-presence inputs through the real parser, detection and pass construction, against a fold model',
    text='The option alphabet is generated from the mutator registry (123 letters: every --<m>, --no-<m>, --<group>, --no-<group>, --disable-all). All sequences of length <=2 x inputs declaring subsets of the five detectable theories (all 32 subsets for length <=1, 12 quick / 32 thorough for length 2, plus alternative declaration forms), all (group-level, any, group-level) triples, and a VERIF_SEED-rotated slice of the remaining triples (thorough: all 1.86 M triples) go through the real options.parse_options, mutators.auto_detect_theories, strategy_ddmin.ddmin_passes and strategy_hierarchical.get_passes; the classes in the pass lists must be exactly what a fold over the sequence plus the detection rule of the statement predicts (no disabled mutator anywhere, last hierarchical pass = enabled set, ddmin = enabled set minus BinaryReduction). Registry sanity: every class resolves, every option sets the flag the lookup reads, no shared options.',
    note='Trusted: fold/detection model in ddv/checks/c14.py. "Declares something of a theory" is read as the code reads it (result sort of a declaration / a datatype declaration); functions mentioning a theory only in parameter sorts are not generated. The traced-run clause (mutator names of tested candidates) is checked by the SCHED executions of C01/C02.',
    design='3/C14')

SCHED_NOTE = ('Trusted: the virtual-pool abstraction of DESIGN 2.5 (PULL/FIN/DEL atomic, FIFO result queue, flag reads summarised by the index k of the first read that sees "set", run-ahead of the producer capped at 2 queued tasks; state pruning merges control states that differ only in node ids / generated names), the command models (deterministic functions of the token sequence), the reference tokenizer, CPython. Schedule coverage is exhaustive up to the stated deviation budget, not beyond.')

CHECKS['C01'] = dict(
    level='model_checking', engine='SCHED',
    technique='stateless deviation-bounded exploration of all schedules of the real ddsmt main() under a virtual process pool, over a scenario product, with a modelled command',
    text='The real ddsmt.__main__.main() runs in-process with multiprocessing replaced by a virtual pool whose every degree of freedom (which check finishes next, producer run-ahead, late main loop, which read of the abort flag first sees it set) is a choice point, and with the command replaced by a deterministic function of the candidate file\'s tokens. 438 scenarios (11 inputs incl. bare top-level atoms and comments x command models x 3 strategies x -j 1/2/3 x 3 output formats x 8 comparison settings x cross-check x mutator sets): all at the default schedule, a third of the format/comparison family (rotated by VERIF_SEED) and a covering subset exhaustively up to 1 schedule deviation, micro scenarios up to 2 (thorough: 2 and 3), with pruning of revisited control states - about 25 k executions quick. REAL conformance: the model trace of a third of the -j 1 scenarios (all in thorough) is replayed against bin/ddsmt with the command model as a real script (trace inclusion). On every execution: the command model re-run on the output file as written matches golden under the configured comparison, the output\'s token sequence is one the command was run on and accepted (command-side log), the input file is unchanged, candidate files are process-private.',
    note=SCHED_NOTE, design='3/C01')
CHECKS['C02'] = dict(
    level='model_checking', engine='SCHED',
    technique='stateless deviation-bounded schedule exploration + lazily decided adversarial command; fixed-point oracle re-deriving every proposal on the final input',
    text='Hierarchical and hybrid runs (-j 1/2/3, six mutator sets, 16 input/command families incl. scenarios where a late cosmetic rename enables a main mutator, where the symbol tables are rebuilt while a task generator may still be running (a generator step under way across the rebuild is a schedule option, and one deviation buys a scheduling policy for all such windows), where only a joint global removal is acceptable, and where a substitution puts one object at two positions) are explored up to 1 schedule deviation (thorough 2) with pruning of revisited control states; on micro inputs the command is adversarial and lazily decided with accept budget 2, i.e. every deterministic command that accepts at most 2 of the candidates it is shown. At normal termination the output file is read back and every proposal of every enabled mutator (taken from the registry and option flags, driven by the harness\'s own loop, not by ddSMT\'s pass list or Producer) at every node is rendered as the command would see it and must be rejected (concrete command) or must have been put to the command and rejected (adversarial). Default-schedule runs are additionally re-run with --strategy hierarchical on their own output and must report "unable to minimize". 58 k executions, 850 k proposals re-checked quick.',
    note=SCHED_NOTE, design='3/C02')
CHECKS['C05'] = dict(
    level='model_checking', engine='SCHED',
    technique='stateless deviation-bounded exploration of all completion orders (incl. simultaneous and late successes) under a virtual pool; chain invariant on monitored derive/verdict/write events',
    text='All strategies with -j 2/3 on scenarios built so that ddmin\'s parallel path and hierarchical restarts are exercised (models that need most of the input, same-length replacements that keep pickle sizes equal), explored up to 1-2 schedule deviations (thorough 2-3) with pruning of revisited control states, plus the adversarial command with accept budget 2 (every pair of candidates of a run as the successes). REAL conformance: real -j 2/3 runs of bin/ddsmt must end in an output that a model execution with <= 2 deviations produces. Per virtual worker the per-process cache of strategy_ddmin is kept separately, tasks and results are pickled as the real pool does. Oracle on the monitored events: every content written was accepted before, was derived by one apply_simp call from its immediate predecessor (stale bases are flagged), the file at exit is the last write. 63 k executions quick; 1.3 k executions with a discarded success.',
    note=SCHED_NOTE, design='3/C05')
CHECKS['C13'].update(
    level='model_checking', engine='SCHED+ENUM',
    text=CHECKS['C13']['text'] + ' History part: 42 scenarios with sharing mutators (let substitution, variable elimination, constants built from the declaration\'s sort node, equalities with ()) x 3 strategies x -j 1/2 explored up to 1 schedule deviation under the virtual pool; at every TaskGenerator / Producer construction (230 k) all node ids of the input handed over must be pairwise distinct.',
    note='Trusted: DAG enumerator and oracle in ddv/checks/c13.py; ' + SCHED_NOTE)

CHECKS['C18'] = dict(
    level='model_checking', engine='SCHED',
    technique='exhaustive exploration of all one-worker-pool schedules up to a deviation budget x PYTHONHASHSEED values (one interpreter each); differential oracle across all executions',
    text='Scenarios with -j 1 (26 input/command families incl. ones where fresh variables, set-like lookups and competing rewrites matter, and a job built around the window in which the symbol tables are rebuilt, x 3 strategies) are run under the virtual one-worker pool for every schedule with up to 1 deviation (thorough 2: producer run-ahead, late main loop, every k) in 8 (thorough 12) separate interpreters with PYTHONHASHSEED 0..7 (0..11); the sequence of accepted token sequences and the output bytes must be identical over all executions of a scenario. REAL tier: 16 runs of bin/ddsmt -j 1 with a real command that delays its k-th invocation, under two hash seeds, must give byte-identical outputs.',
    note=SCHED_NOTE + ' Process ids are irrelevant to the observations (only file contents are compared).', design='3/C18')

GRAPH_NOTE = ('Trusted: the argument of DESIGN 2.8 that every sequence of accepted inputs of any run (any deterministic command, strategy, schedule) is a path of the explored rewrite graph; the seed family ddv/seeds.py (generated depth-1 formulas per theory, occurs-check equalities, hand-written command-level scripts, one script per operator of the typed generator); the harness serialisation as state key. Coverage is exhaustive within the stated depth / state caps from these seeds, not beyond (caps are reported in the evidence).')

CHECKS['C03'] = dict(
    level='model_checking', engine='GRAPH',
    technique='explicit-state search of the rewrite graph whose transitions are the real mutators (hierarchical proposals and ddmin group steps); SCC / self-loop detection; deterministic per-call work budgets',
    text='From each of ~185 quick seeds (generated depth-1 formulas per theory, occurs-check equalities, 33 hand-written command-level scripts, one script per operator of the typed generator in a VERIF_SEED-rotated slice; thorough: all) the rewrite graph is explored breadth-first in two regimes - all mutators to depth 2 (thorough 3), and without the pure deleters/creators up to a state cap - with transitions computed by the real mutators, apply_simp, reduplicate and collect_information, including the ddmin group steps built by the real TaskGenerator, for both --replace-by-variable-mode settings (330 k states, 8.4 M transitions quick). Oracles: no proposal leaves the input unchanged; the explored graph has no strongly connected component with more than one state once the edges explained by the listed open findings (KF-C03-1/2/5/7) are removed - those are printed as KNOWN-FINDING; at the first 150 states of every closure unit the proposals of the long-lived mutator instances must equal those of fresh instances (the transition relation is a function of the current input, not of the history); every filter/mutations/apply call stays within a count budget of 60(n+10)^2 Node hash calls and constructions (a CPU-time backstop turns a hang into a verdict).',
    note=GRAPH_NOTE, design='3/C03')
CHECKS['C15'] = dict(
    level='model_checking', engine='GRAPH',
    technique='explicit-state search of the rewrite graph; per-proposal oracle: apply, render with all four renderers, re-read with ddSMT and the reference reader, fresh-declaration rules',
    text='At every state within depth 2 (thorough 3) of every seed, every proposal of every enabled mutator at every node (1.2 M proposals, 3 M renderings quick; ddmin group steps included) must refer only to nodes / keys of that state, be applicable without error, produce leaves that are single tokens (a new leaf that starts with a digit must be a complete numeral or decimal; the trailing-dot decimals of ArithmeticSimplifyConstant are the open finding KF-C15-4), and its result rendered by the checking, default, pretty and wrap renderers must be read back by ddSMT and by the independent reference reader as exactly the tree kept in memory; every declaration in fresh_vars must declare a symbol that no well-formed declaration or binder of the state introduces and must stand before the first command using it.',
    note=GRAPH_NOTE, design='3/C15')

CHECKS['C04'] = dict(
    level='model_checking', engine='GRAPH',
    technique='explicit-state search of the rewrite graph with an every-state oracle over all unguarded main-process code paths; exhaustive small-scope enumeration of ill-formed shapes; real-process exit-status table',
    text='(1) At every state within depth 2 (thorough 3) of every seed with all mutators enabled (so the shapes node erasure leaves behind arise: (bvand), (declare-const x), (forall), datatypes without constructors) everything ddSMT runs outside an exception guard in its main process is executed and must not raise: auto_detect_theories, collect_information, counters, reduplicate, pass construction, all four renderers and re-parsing their output, Producer.generate for every pass, TaskGenerator for every ddmin mutator at every granularity (52 k states quick); on every 7th state the tasks of the full producer must equal the union of what each mutator yields alone (containment of failures). (2) All ill-formed shapes head x arity 0..2 (thorough 3) x 11 child kinds for 64 heads in 4 contexts (35 k scripts). (3) Real runs of bin/ddsmt and python -m ddsmt: 12 completion / usage-error cases and SIGINT to the process group at the 1st/3rd/6th test for both strategies: exit status 0 iff minimisation completed, no traceback, exactly one diagnostic line for usage errors, temporary directory gone.',
    note=GRAPH_NOTE + ' The list of unguarded code paths was read off cli.py and the strategy modules (ddv/checks/c04.py).', design='3/C04')

CHECKS['C16'] = dict(
    level='exploration', engine='ENUM',
    technique='bounded-exhaustive enumeration of well-sorted terms from an independent operator table, checked at every term position against the generator\'s typing',
    text='All 3 639 well-sorted terms of depth <=1 over an operator table written from the SMT-LIB theory documents (Core, Ints, Reals, FixedSizeBitVectors with widths 1/2/4/8 and every indexed operator, FloatingPoint in both sort spellings, Strings incl. RegLan, ArraysEx, a datatype, uninterpreted sort and functions; all combinations of up to 3 atoms per argument incl. every constant notation) are embedded asserted, let-bound, under a quantifier and as define-fun body, and all 197 400 depth-2 terms asserted (thorough: all four contexts); after the real collect_information every term position (1.4 M) must have get_sort in {None, actual sort} and get_bv_width in {-1, actual width}. Consumers: every default constant must check to its sort with the independent sort checker, and get_variables_with_sort must only offer 0-ary symbols of that sort.',
    note='Trusted: operator table and sort checker ddv/typed.py (self-tested against each other). Numerals only occur in Int positions and decimals in Real positions; every symbol is bound once.',
    design='3/C16')

CHECKS['C17'] = dict(
    level='exploration', engine='ENUM',
    technique='bounded-exhaustive enumeration of rewrite instances x all assignments over finite domains, against an independent sort checker and evaluator',
    text='For each of the 21 mutators the property lists, all well-sorted instances within the bounds (operands from variables, constants in every notation #b/#x/(_ bvN w) and compound terms; widths 1-4 and 8; every well-sorted index value for extract/extend; binary forms where the documentation says so; for inlining and let every choice of actual arguments / bound terms over the formals\' own names, parallel bindings and shadowing inner binders; selector-of-constructor for a singular and a plural datatype declaration; FP sort abbreviation incl. near misses) are offered to the real filter; every proposal of the real mutations() (3.5 k quick) must type-check to the same sort and evaluate to the same value under every assignment (240 k evaluations), for top-level rewrites every defined symbol must keep its value. The run fails as vacuous if any listed mutator produced no proposal.',
    note='Trusted: sort checker ddv/typed.py and evaluator ddv/evalsmt.py (self-tested); quantifiers range over finite domains (the identities checked hold over any fixed domain); integer division by zero is skipped as undefined.',
    design='3/C17')

CHECKS['C06'] = dict(
    level='fault_enumeration', engine='FAULT',
    technique='enumeration of every low-level file-operation point of every rewrite as observation point and as interrupt point, on the real write path; interrupts at command executions over schedule deviations; real SIGINT runs',
    text='21 scenarios (3 strategies x 3 output formats, 3-10 rewrites each) run the real main() with nodeio\'s open/os rebound to a proxy that numbers every operation on the output file (open, each write, close, replace). At each of the 5.2 k operation points the content on disk is read through a separate descriptor (what a concurrent reader or a kill -9 finds) and must tokenise to a complete accepted input from the first completed rewrite on; and one execution per point raises KeyboardInterrupt exactly there and leaves it to ddSMT\'s handlers: afterwards the file must hold the last accepted input (or the one being installed), main() returned 1, the input file is unchanged, the temporary directory and any sibling temp file are gone. Interrupts are also injected at every command execution on the default schedule and, with -j 2 and one schedule deviation, at every execution that is still running after an acceptance (number of acceptances by the main loop must equal the number of completed rewrites). The temporary directory is modelled as a different file system than the output directory (a rename across the two fails with EXDEV) and file operations inside shutil are observed as well. REAL: 20 runs of bin/ddsmt with SIGINT to the process group at the 2nd..16th invocation.',
    note='Trusted: operation-point granularity is the python-level file operation, not machine instructions inside one write(2); the file proxy forwards to the real file object. "Last accepted" is read leniently for an interrupt inside the rewrite that installs it. ' + SCHED_NOTE,
    design='3/C06')

CHECKS['C10'] = dict(
    level='fault_enumeration', engine='FAULT',
    technique='enumeration of all placements of command faults over the invocations of a run, through the real checker with a virtual subprocess/resource/clock; real-kernel validation runs',
    text='52 scenarios (3 strategies, -j 1/2, explicit and derived time limit, --memout, match strings, cross check with its own limit, faulty golden runs, golden runs lacking the match string) run the real main() with the real checker.execute / check / do_golden_runs over a virtual subprocess module, resource module and clock; every placement of <=1 (thorough 2) faults {never finishes (incl. a wrapper whose child keeps the pipes open), CPU-limit death, memory-limit death, signal death} over the command invocations is explored (6.7 k executions quick). Oracle: a faulty candidate is never written to the output file, every timed-out process was killed, the run completes, each invocation got the configured/derived limit (1.5 x (golden + 1); cross check its own), RLIMIT_CPU = ceil(limit) and RLIMIT_AS = memout MiB were set on the child, virtual elapsed time <= tests x limit, a golden run without the match string (or without output) ends with status 1 before any test, legal slow cross-check runs do not change the result. REAL: the real checker.execute on sleeping / spinning / allocating / self-SEGV commands with tiny limits returns the answers the virtual layer assumes and leaves no child behind; two real bin/ddsmt runs with a hanging candidate terminate without adopting it.',
    note='Trusted: the virtual Popen/resource/clock of ddv/checks/c10.py (validated by the 7 real runs); REAL oracles use generous margins so that machine load cannot falsify them. ' + SCHED_NOTE,
    design='3/C10')

ENGINES = [
    dict(name='FAULT', path='ddv/checks/c06.py', serves_properties=['C06', 'C10'],
         kind_free_text='file-operation proxy, interrupt injection, virtual subprocess / clock (C10), on top of the SCHED launcher'),
    dict(name='GRAPH', path='ddv/graph.py', serves_properties=['C03', 'C04', 'C15'],
         kind_free_text='explicit-state breadth-first search of the rewrite graph (real mutators as transition relation), SCC detection, per-call work meter'),
    dict(name='SCHED', path='ddv/sched.py', serves_properties=['C01', 'C02', 'C05', 'C13', 'C18'],
         kind_free_text='stateless deviation-bounded explorer (ddv/explore.py) over the real ddsmt main() under a virtual process pool and a modelled command'),
    dict(name='ENUM', path='ddv/sexp.py', serves_properties=['C07', 'C08', 'C09', 'C11', 'C12', 'C13', 'C14', 'C16', 'C17'],
         kind_free_text='bounded-exhaustive enumerators (trees, DAG sharing patterns, lexeme sequences, option sequences) + independent reference models'),
]

REASON_NOT_BUILT = 'check not built yet (build in progress, see DESIGN.md section 7)'


def main():
    ids = [json.loads(l)['id'] for l in open(os.path.join(VERIF, 'properties.jsonl'))]
    checks = []
    for pid in ids:
        if pid not in CHECKS:
            continue
        c = CHECKS[pid]
        checks.append({
            'property_id': pid,
            'quick_cmd': f'./vrun check {pid} --tier quick',
            'thorough_cmd': f'./vrun check {pid} --tier thorough',
            'evidence_file': f'/verif/evidence/{pid}.json',
            'replay_cmd_template': './vrun replay {path}',
            'engine': c['engine'],
            'level_claimed': {'category': c['level'], 'text': c['text'], 'design_ref': 'DESIGN.md section ' + c['design']},
            'level_note': c['note'],
            'technique': c['technique'],
        })
    m = {
        'version': 1,
        'setup_cmd': './vrun selftest',
        'hooks': {
            'guard': 'DDSMT_VERIF',
            'enable': 'none needed: every check imports ddsmt from /repo (or $DDV_REPO) and rebinds module-level names at run time; no source line reads the guard',
            'baseline_off_cmd': 'cd /repo && /venv/bin/python -m pytest -ra -q -p no:cacheprovider --timeout=900 --continue-on-collection-errors',
            'source_commits': [],
            'add_only': True,
        },
        'engines': ENGINES,
        'checks': checks,
        'notes': 'Model checking = exhaustive enumeration inside stated bounds, run against the code in /repo. fix: commits in /repo and open findings are listed in known_findings.json; seeded property-breaking changes and which checks detect them are under seeded/.',
        'not_applicable': [{'property_id': p, 'reason': REASON_NOT_BUILT} for p in ids if p not in CHECKS],
    }
    with open(os.path.join(VERIF, 'MANIFEST.json'), 'w') as f:
        json.dump(m, f, indent=1)
        f.write('\n')


if __name__ == '__main__':
    main()
