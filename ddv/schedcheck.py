"""Generic driver for checks built on the SCHED engine."""
import json

from . import common, explore, sched


def run(prop, level, tier, scenarios, judge, budgets_of, rule, assumptions,
        vacuity=None, want=48, max_execs=None, extra=None):
    rep = common.Reporter(prop, level, tier)
    if max_execs is None and rep.tier == 'thorough':
        # safety net for the deep budgets: a scenario (or one of its
        # subtrees) that needs more executions is cut and reported as a cap
        max_execs = 2500
    parts = sched.explore_scenarios(scenarios, judge, budgets_of, want=want,
                                    max_execs=max_execs)
    sched.merge_parts(rep, parts)
    cov = rep.coverage
    rep.set('scenarios', len(scenarios))
    rep.set('evaluations', cov.get('executions', 0))
    rep.set('distinct_nontrivial', cov.get('distinct_outcomes', 0))
    rep.set('rule', rule)
    rep.set('budgets', sorted(set(json.dumps(budgets_of(s), sort_keys=True)
                                  for s in scenarios)))
    rep.set('exhaustive', True)
    rep.assume(*assumptions)
    if extra:
        extra(rep)
    rep.set('traces_validated_against_impl',
            rep.coverage.get('traces_validated_against_impl', 0))
    # every reported violation must reproduce bit-identically when its
    # choice vector is replayed in this (fresh) process
    common.import_ddsmt()
    sched.install()
    for sig, rec in list(rep.violations.items()):
        if 'scenario' not in rec or 'choices' not in rec:
            continue
        again = replay_record(rec, judge)
        if sig not in again:
            raise common.HarnessError(
                f'violation {sig} did not reproduce on replay: harness '
                f'nondeterminism')
    if vacuity:
        for key, minimum in vacuity.items():
            if cov.get(key, 0) < minimum:
                raise common.HarnessError(
                    f'vacuous exploration: {key}={cov.get(key, 0)} < '
                    f'{minimum}')
    return rep.finish()


def replay_record(rec, judge):
    scn = rec['scenario']
    scn = dict(scn)
    for k in ('model', 'cc_model'):
        if scn.get(k) is not None:
            scn[k] = tuplify(scn[k])
    prefix = [(tuplify(t) if t is not None else None, c)
              for t, c in rec['choices']]
    ch = explore.Chooser(prefix)
    x = sched.run_once(scn, ch)
    part = common.part_result()
    judge(part, scn, x)
    return {sig for sig, r, kf in part['violations']}


def tuplify(v):
    if isinstance(v, list):
        return tuple(tuplify(x) for x in v)
    return v


def replay(rec, judge):
    common.import_ddsmt()
    sched.install()
    r = rec['record']
    print(r.get('brief'))
    sigs = replay_record(r, judge)
    print('replayed:', sorted(sigs) or 'no violation')
    return 1 if rec['signature'] in sigs else 0
