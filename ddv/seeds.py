"""Seed inputs for the GRAPH engine (DESIGN 2.8): a bounded-exhaustive family
of small well-sorted scripts per theory group, generated from operator tables,
plus hand-written scripts for the command-level constructs."""
import itertools

BOOL = dict(
    decls='(declare-const a Bool)\n(declare-const b Bool)\n',
    atoms=['a', 'b', 'true', 'false'],
    unary=['not'],
    binary=['and', 'or', 'xor', '=>', '=', 'distinct'],
    preds=None)

INT = dict(
    decls='(declare-const n Int)\n(declare-const m Int)\n',
    atoms=['n', 'm', '0', '1', '12'],
    unary=['-', 'abs'],
    binary=['+', '-', '*', 'div', 'mod'],
    preds=['<', '<=', '>', '>=', '=', 'distinct'])

REAL = dict(
    decls='(declare-const x Real)\n(declare-const y Real)\n',
    atoms=['x', 'y', '0.0', '2.5', '(/ 1 3)'],
    unary=['-'],
    binary=['+', '*', '/'],
    preds=['<', '>=', '='])

BV = dict(
    decls='(declare-const x (_ BitVec 4))\n(declare-const y (_ BitVec 4))\n',
    atoms=['x', 'y', '#b0011', '#x5', '(_ bv3 4)'],
    unary=['bvnot', 'bvneg', '(_ rotate_left 1)'],
    binary=['bvadd', 'bvand', 'bvor', 'bvnand', 'bvmul', 'bvxor'],
    preds=['=', 'bvult', 'bvsle', 'distinct'])

STR = dict(
    decls='(declare-const s String)\n(declare-const t String)\n',
    atoms=['s', 't', '"ab"', '""', '"a\\x41 b"'],
    unary=[],
    binary=['str.++'],
    preds=['=', 'str.contains', 'str.prefixof', 'str.<='])

TABLES = {'bool': BOOL, 'int': INT, 'real': REAL, 'bv': BV, 'str': STR}


def terms(tab, depth):
    """All terms of the table's main sort up to ``depth``."""
    level = list(tab['atoms'])
    allt = list(level)
    for _ in range(depth):
        new = []
        for u in tab['unary']:
            for t in level:
                new.append(f'({u} {t})')
        for b in tab['binary']:
            for t1 in level:
                for t2 in tab['atoms']:
                    new.append(f'({b} {t1} {t2})')
        level = new
        allt += new
    return allt


def formulas(name, tab, depth):
    ts = terms(tab, depth)
    if tab['preds'] is None:
        return [t for t in ts if t not in tab['atoms']]
    out = []
    for p in tab['preds']:
        for t1 in ts:
            if t1 in tab['atoms'][2:]:
                continue
            for t2 in tab['atoms'][:3]:
                out.append(f'({p} {t1} {t2})')
    return out


def generated(tier):
    """(name, text): scripts with one or two generated assertions."""
    out = []
    depth = 1
    for name, tab in TABLES.items():
        fs = formulas(name, tab, depth)
        # spread: quick takes a stride through the family, thorough all
        stride = max(1, len(fs) // (60 if tier == 'thorough' else 12))
        for i, f in enumerate(fs[::stride]):
            out.append((f'{name}-gen{i}',
                        tab['decls'] + f'(assert {f})\n(check-sat)\n'))
        # negated / nested forms
        for i, f in enumerate(fs[::max(1, len(fs) // 4)][:4]):
            out.append((f'{name}-not{i}', tab['decls'] +
                        f'(assert (not {f}))\n(assert (=> {f} (not {f})))\n'))
    # equalities whose leaf operand occurs nested (depth 1 and 2) in the other
    # operand: the occurs-check guards of the substituting mutators
    for name, tab in TABLES.items():
        v, w = tab['atoms'][0], tab['atoms'][1]
        eqs = []
        for u in tab['unary'][:2]:
            eqs.append(f'(= {v} ({u} {v}))')
            eqs.append(f'(= {v} ({u} ({u} {v})))')
        for b in tab['binary'][:2]:
            eqs.append(f'(= {v} ({b} {w} {v}))')
            eqs.append(f'(= {v} ({b} ({b} {v} {w}) {w}))')
            eqs.append(f'(= ({b} {w} ({b} {v} {v})) {v} {w})')
        for i, e in enumerate(eqs):
            out.append((f'{name}-occurs{i}',
                        tab['decls'] + f'(assert {e})\n(check-sat)\n'))
    return out


HAND = [
    ('def-selfref', '''(declare-const y Int)
(define-fun f () Int (+ y 1))
(assert (= y f))
'''),
    ('bv-ext', '''(declare-const x (_ BitVec 4))
(declare-const y (_ BitVec 8))
(assert (= ((_ zero_extend 4) ((_ zero_extend 2) ((_ extract 2 1) x))) y))
(assert (= ((_ sign_extend 2) #b101) ((_ extract 4 0) ((_ zero_extend 4) x))))
'''),
    ('bv-consts', '''(declare-const x (_ BitVec 8))
(assert (= (concat #x0 ((_ extract 3 0) #xA7)) ((_ zero_extend 4) (_ bv9 4))))
(assert (= x (bvadd #x2c (_ bv200 8))))
'''),
    ('bv-comp', '''(declare-const x (_ BitVec 4))
(declare-const y (_ BitVec 4))
(assert (= #b1 (bvcomp x y) (ite (= x y) #b1 #b0)))
(assert (= (_ bv1 1) (bvand (bvcomp x y) #b1)))
(assert (bvult ((_ zero_extend 2) x) ((_ zero_extend 4) ((_ extract 1 0) y))))
(assert (= (bvnand x x) (bvnot (bvnot y))))
'''),
    ('bv-reduce', '''(declare-const w (_ BitVec 8))
(declare-fun v () (_ BitVec 4))
(assert (= w (concat v v)))
'''),
    ('bv-merge', '''(declare-const __w (_ BitVec 2))
(define-fun _w () (_ BitVec 4) ((_ zero_extend 2) __w))
(define-fun w () (_ BitVec 8) ((_ zero_extend 4) _w))
(assert (= w #x03))
'''),
    ('define-fun', '''(declare-const k Int)
(define-fun f ((a Int) (b Int)) Int (- a b))
(define-fun c () Int (+ k 1))
(assert (> (f (f k 1) c) (f c k)))
'''),
    ('let', '''(declare-const p Int)
(declare-const q Int)
(assert (let ((u (+ p 1)) (v q)) (> u (let ((w (* u v))) (+ w v)))))
'''),
    ('let-shadow', '''(declare-const a Int)
(declare-const b Int)
(assert (let ((a b) (b a)) (> a b)))
(assert (let ((c (+ a 1))) (let ((c (+ c 1))) (> c a))))
'''),
    ('quant', '''(declare-fun g (Int) Int)
(assert (forall ((i Int) (j Int)) (=> (< i j) (<= (g i) (g j)))))
(assert (not (exists ((z Int)) (= (g z) 0))))
'''),
    ('annot', '''(set-option :produce-unsat-cores true)
(declare-const a Bool)
(declare-const b Bool)
(assert (! (or a b) :named ab))
(assert (! (not a) :named na))
(check-sat-assuming (b (not a)))
(get-unsat-core)
'''),
    ('funs-rec', '''(define-funs-rec ((ev ((n Int)) Bool) (od ((n Int)) Bool))
 ((ite (= n 0) true (od (- n 1))) (ite (= n 0) false (ev (- n 1)))))
(assert (ev 4))
'''),
    ('quoted', '''(set-logic QF_UFLIRA)
(declare-const |a b| Int)
(declare-const |x| Int)
(declare-const |long name!| Real)
(assert (> (+ |a b| |x|) 3))
(assert (= |long name!| 1.5))
'''),
    ('datatype', '''(declare-datatype Lst ((nil) (cons (hd Int) (tl Lst))))
(declare-const l Lst)
(assert (= (hd (cons 1 l)) 1))
(assert (= (tl (cons 2 nil)) l))
'''),
    ('datatypes', '''(declare-datatypes ((Tree 0) (Col 0))
 (((leaf) (node (left Tree) (right Tree) (col Col))) ((red) (green))))
(declare-const t Tree)
(assert (= (col (node leaf t red)) green))
'''),
    ('fp', '''(declare-const f (_ FloatingPoint 8 24))
(declare-const g Float32)
(declare-const r RoundingMode)
(assert (fp.lt (fp.add r f g) (fp.neg f)))
(assert (= g ((_ to_fp 8 24) r 1.5)))
'''),
    ('strings2', '''(declare-const s String)
(declare-const t String)
(assert (str.contains (str.++ s "a") t))
(assert (= (str.indexof s "b" 0) (str.len (str.replace_all s "aa" t))))
(assert (= (seq.nth (seq.unit 5) 0) 5))
'''),
    ('strings-esc', '''(declare-const s String)
(assert (= s "say ""hi"" \\u{48}\\x41 and (more) ; text"))
(assert (str.contains s "a""b"))
'''),
    ('wide', '''(declare-const a Bool)
(assert (and a a a a a a a a a))
(assert (or a (and a a a a a a a a) a))
'''),
    ('many-cmds', '''(set-info :status sat)
(set-logic QF_UF)
(declare-const a Bool)
(declare-const b Bool)
(assert a)
(assert b)
(assert (or a b))
(assert (and a b))
(push 1)
(assert (not a))
(check-sat)
(pop 1)
(exit)
'''),
    ('eq-empty', '''(declare-fun u () Int)
(declare-fun v () Int)
(assert (= u v))
(assert (= () ()))
(assert (= u (+ v 1) v))
'''),
    ('fresh-clash', '''(declare-const x7__fresh Int)
(declare-const _y Int)
(declare-const y (_ BitVec 4))
(assert (> (+ x7__fresh 1) (* _y 2)))
(assert (= y #b0001))
'''),
    ('fresh-clash2', '(assert (> (+ a 1) (* b 2)))\n(declare-const a Int)\n'
     '(declare-const b Int)\n' + ''.join(
         f'(declare-const x{i}__fresh Int)\n' for i in range(5, 13))),
    ('late-set-info', '''(set-info :smt-lib-version 2.6)
(set-logic QF_BV)
(declare-const v (_ BitVec 8))
(declare-const k Int)
(assert (= v (bvadd v #x01)))
(assert (> (+ k 1) 2))
(set-info :status sat)
(check-sat)
(set-info :exit-reason done)
(exit)
'''),
    ('str-clash', '''(declare-const v String)
(declare-const w String)
(declare-const v_prefix String)
(declare-const w_suffix String)
(assert (str.contains v "ab"))
(assert (str.contains w v))
'''),
    ('deep-sum', '(declare-sort U 0)\n(declare-fun f (U) Int)\n'
     '(declare-const u U)\n(assert (> ' + '(+ ' * 22 + '(f u)' +
     ' 1)' * 22 + ' 0))\n'),
    ('comments', '''; leading
(declare-const a Bool) ; trailing
(assert (or a ; inside
 (not a)))
'''),
    ('xor-consts', '''(declare-const a Bool)
(declare-const b Bool)
(assert (xor a true b false))
(assert (= false a b))
(assert (=> a b a))
'''),
]


def typed_seeds(tier, seed=0):
    """One script per operator of the typed generator's table (ddv/typed.py):
    the first depth-1 application of that operator, asserted, with the
    declarations it needs.  Quick runs take a slice rotated by VERIF_SEED,
    thorough runs take all."""
    from . import sexp, typed
    out, _ = typed.generate(1)
    by_head = {}
    for s, ts in out.items():
        for t in ts:
            if t.depth != 1 or isinstance(t.tree, str):
                continue
            h = t.tree[0]
            key = h if isinstance(h, str) else ' '.join(h)
            by_head.setdefault((key, repr(s)), (t, s))
    decls = {sexp.serialize(d): d for d in typed.declarations()}
    res = []
    items = sorted(by_head.items())
    if tier != 'thorough':
        k = 8
        items = items[seed % k::k]
    for (key, _), (t, s) in items:
        used = set(sexp.flat_tokens(t.tree))
        need = [d for d in typed.declarations()
                if d[0] in ('declare-sort', 'declare-datatype',
                            'declare-datatypes')
                or (len(d) > 1 and isinstance(d[1], str) and d[1] in used)]
        if s == 'Bool':
            body = t.tree
        elif s == typed.REGLAN:
            body = ['str.in_re', 's1', t.tree]
            need.append(['declare-const', 's1', 'String'])
        else:
            body = ['=', t.tree, t.tree]
        # drop datatype / sort declarations that are not needed
        keep = []
        for d in need:
            if d[0] == 'declare-datatype' and not (used & {'nil', 'cons', 'hd',
                                                          'tl', 'l1', 'l2'}):
                continue
            if d[0] == 'declare-datatypes' and not (used & {
                    'dot', 'blob', 'circle', 'square', 'rad', 'side', 'tag',
                    'ta', 'tb', 'tc', 'inner', 'cnt', 'sh1', 'sh2', 'tg1',
                    'tg2'}):
                continue
            if d[0] == 'declare-sort' and not (used & {'u1', 'u2', 'uf'}):
                continue
            keep.append(d)
        text = '\n'.join(sexp.serialize(d) for d in keep +
                         [['assert', body]]) + '\n'
        name = 'typed-' + key.replace(' ', '_') + '-' + \
            sexp.serialize(typed.sort_text(s)).replace(' ', '_')
        res.append((name, text))
    return res


def seeds(tier, seed=0):
    return generated(tier) + HAND + typed_seeds(tier, seed)


def selftest():
    from . import sexp
    for name, text in seeds('thorough'):
        sexp.read(text)
    return True
