"""Cooperative thread scheduler: real Python threads that only run while they
hold the baton; every scheduling point hands the baton back to the controller,
which asks the explorer's Chooser who goes next.  Used to enumerate *all*
interleavings of small multi-"process" scenarios (DESIGN 2.5, C12).
"""
import threading

from . import common


class Deadlock(Exception):
    pass


class _T:

    def __init__(self, idx, body):
        self.idx = idx
        self.body = body
        self.sem = threading.Semaphore(0)
        self.done = False
        self.blocked_on = None
        self.result = None
        self.error = None
        self.thread = None


class Scheduler:
    """Run ``bodies`` (callables taking the scheduler-thread handle) under the
    control of ``chooser``.  A body calls ``sched.point(tag)`` at scheduling
    points and uses ``sched.Lock()`` objects for mutual exclusion."""

    def __init__(self, chooser, kind='sched'):
        self.ch = chooser
        self.kind = kind
        self.ctl = threading.Semaphore(0)
        self.threads = []
        self.current = None
        self.trace = []
        self._local = threading.local()

    # -- API for bodies --------------------------------------------------
    def me(self):
        return self._local.t

    def point(self, tag=''):
        t = self._local.t
        self.trace.append((t.idx, tag))
        self.ctl.release()
        t.sem.acquire()

    def Lock(self):
        return _Lock(self)

    # -- controller ------------------------------------------------------
    def run(self, bodies):
        for i, b in enumerate(bodies):
            t = _T(i, b)
            t.thread = threading.Thread(target=self._main, args=(t, ),
                                        daemon=True)
            self.threads.append(t)
        for t in self.threads:
            t.thread.start()
        last = None
        while True:
            enabled = [
                t for t in self.threads
                if not t.done and (t.blocked_on is None
                                   or t.blocked_on.owner is None)
            ]
            if not enabled:
                if all(t.done for t in self.threads):
                    break
                raise Deadlock([t.idx for t in self.threads if not t.done])
            # canonical order: the running thread first (default = continue)
            if last is not None and last in enabled:
                enabled.remove(last)
                enabled.insert(0, last)
            c = self.ch.choose(('thr', tuple(t.idx for t in enabled)),
                               len(enabled), 0, self.kind)
            t = enabled[c]
            last = t
            t.sem.release()
            self.ctl.acquire()
        for t in self.threads:
            t.thread.join(5)
        for t in self.threads:
            if t.error is not None:
                raise t.error
        return [t.result for t in self.threads]

    def _main(self, t):
        self._local.t = t
        t.sem.acquire()
        try:
            t.result = t.body(self)
        except BaseException as e:  # noqa
            t.error = e
        t.done = True
        self.ctl.release()


class _Lock:

    def __init__(self, sched):
        self.s = sched
        self.owner = None

    def acquire(self):
        t = self.s.me()
        self.s.point('lock?')
        while self.owner is not None:
            t.blocked_on = self
            self.s.point('blocked')
        t.blocked_on = None
        self.owner = t

    def release(self):
        self.owner = None
        self.s.point('unlock')

    def __enter__(self):
        self.acquire()
        return self

    def __exit__(self, *a):
        self.release()
        return False


def selftest():
    from . import explore

    # two threads, unprotected read-modify-write: lost update reachable
    def make(protected):

        def run(ch):
            s = Scheduler(ch)
            shared = {'v': 0}
            lock = s.Lock()

            def body(sched):
                if protected:
                    lock.acquire()
                sched.point('read')
                v = shared['v']
                sched.point('write')
                shared['v'] = v + 1
                if protected:
                    lock.release()

            s.run([body, body])
            return shared['v']

        return run

    outs = set()
    n, _ = explore.explore(make(False), {'sched': 99},
                           lambda ch, o: outs.add(o))
    assert outs == {1, 2}, outs
    outs = set()
    n2, _ = explore.explore(make(True), {'sched': 99},
                            lambda ch, o: outs.add(o))
    assert outs == {2}, outs
    assert n > 3 and n2 > 1
    return True
