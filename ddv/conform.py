"""REAL conformance tier: model traces are replayed against the unmodified
program (real subprocesses, real multiprocessing) and must be reproduced.

* j1: for -j 1 scenarios the in-process run under the virtual pool and a
  real `bin/ddsmt` run with the same command model as a real script must see
  the same sequence of (candidate tokens, result) and write the same output.
A mismatch is a harness error (the environment model misrepresents the
program), never a property violation.
"""
import json
import os
import re
import subprocess
import sys

from . import common, explore, sched

FRESH = re.compile(r'x\d+__fresh')
CMD = os.path.join(common.VERIF, 'ddv', 'real', 'modelcmd.py')


def norm_seq(seq):
    return [[FRESH.sub('x#__fresh', t) for t in toks] for toks in seq]


def real_run(scn, d, tag, extra_env=None, timeout=600):
    infile = os.path.join(d, f'in-{tag}.smt2')
    out = os.path.join(d, f'out-{tag}.smt2')
    log = os.path.join(d, f'log-{tag}')
    tmp = os.path.join(d, f'tmp-{tag}')
    os.mkdir(tmp)
    with open(infile, 'w') as f:
        f.write(scn['input'])
    env = dict(os.environ, DDV_VERIF=common.VERIF,
               DDV_MODEL=json.dumps(scn['model']), DDV_CMDLOG=log,
               TMPDIR=tmp)
    env.update(extra_env or {})
    p = subprocess.run(
        [sys.executable, os.path.join(common.REPO, 'bin', 'ddsmt')] +
        list(scn['argv']) + [infile, out, CMD], cwd=common.REPO, env=env,
        capture_output=True, timeout=timeout)
    runs = []
    if os.path.exists(log):
        for line in open(log):
            r = json.loads(line)
            runs.append(r)
    data = open(out, 'rb').read() if os.path.exists(out) else None
    return p.returncode, runs, data, p.stderr.decode('utf-8', 'replace')


def j1_one(scn):
    common.import_ddsmt()
    sched.install()
    x = sched.run_once(scn, explore.Chooser([]))
    model_seq = [list(e[2]) for e in x.log if e[0] == 'run'
                 and e[1] == 'main']
    with common.scratch_dir('ddv-conf-') as d:
        rc, runs, data, err = real_run(scn, d, 'j1')
    real_seq = [r['tokens'] for r in runs]
    res = {'name': scn['name'], 'n': len(real_seq), 'ok': True, 'why': ''}
    if rc != (x.rc if x.crash is None else 1):
        res.update(ok=False, why=f'exit status {rc} vs model {x.rc} '
                   f'{x.crash and x.crash[:2]}: {err[-300:]}')
    elif norm_seq(model_seq) != norm_seq(real_seq) and \
            not modulo_stale(model_seq, real_seq, x, data, res) and \
            not included(scn, real_seq, data, res):
        i = next((i for i, (a, b) in enumerate(zip(norm_seq(model_seq),
                                                   norm_seq(real_seq)))
                  if a != b), min(len(model_seq), len(real_seq)))
        res.update(ok=False, why=f'command saw different candidates from '
                   f'invocation {i} on ({len(model_seq)} model vs '
                   f'{len(real_seq)} real): model '
                   f'{model_seq[i:i + 1]} real {real_seq[i:i + 1]}')
    elif FRESH.sub('x#__fresh', (x.out_bytes or b'').decode()) != \
            FRESH.sub('x#__fresh', (data or b'').decode()):
        res.update(ok=False, why=f'output differs: model {x.out_bytes!r} '
                   f'real {data!r}')
    return res


def modulo_stale(model_seq, real_seq, x, real_out, res):
    """With one worker the real pool may run queued, already stale tasks
    between a success and the moment the main loop sets the abort flag (more
    of them on a loaded machine).  The real run is accepted as the model's
    default trace if the outputs agree, the model's candidate sequence is a
    subsequence of the real one, and the surplus is small relative to the
    number of acceptances."""
    if FRESH.sub('x#__fresh', (x.out_bytes or b'').decode()) != \
            FRESH.sub('x#__fresh', (real_out or b'').decode()):
        return False
    want = norm_seq(model_seq)
    got = norm_seq(real_seq)
    i = 0
    for g in got:
        if i < len(want) and g == want[i]:
            i += 1
    if i != len(want):
        return False
    acc = sum(1 for e in x.log if e[0] == 'write')
    if len(got) - len(want) > 4 * max(acc, 1):
        return False
    res['matched_modulo_stale'] = len(got) - len(want)
    return True


def included(scn, real_seq, real_out, res, max_execs=4000):
    """Trace inclusion: is the real run one of the model's executions with
    at most 2 schedule deviations?  (With one worker the real pool may start
    a queued, already stale task before the main loop has set the abort flag:
    that is the model's run-ahead + late-flag schedule, not its default.)"""
    want = norm_seq(real_seq)
    want_out = FRESH.sub('x#__fresh', (real_out or b'').decode())
    found = []

    class Stop(Exception):
        pass

    def on_exec(ch, x):
        seq = [list(e[2]) for e in x.log if e[0] == 'run' and e[1] == 'main']
        if norm_seq(seq) == want and FRESH.sub(
                'x#__fresh', (x.out_bytes or b'').decode()) == want_out:
            found.append(ch.deviations())
            raise Stop()

    eager = dict(scn, eager_pull=True)
    for s, b in ((scn, 1), (eager, 0), (eager, 1), (scn, 2), (eager, 2),
                 (eager, 3)):
        try:
            explore.explore(lambda ch: sched.run_once(s, ch),
                            {'sched': b}, on_exec, max_execs=max_execs)
        except Stop:
            res['matched_with_deviations'] = b + (10 if s is eager else 0)
            return True
    return False


def j1_conformance(rep, scenarios):
    """Replay the default-schedule model trace of every -j 1 scenario against
    the real program; count validated traces; raise on mismatch."""
    scns = [s for s in scenarios if '-j' in s['argv'] and
            s['argv'][s['argv'].index('-j') + 1] == '1' and
            s.get('cc_model') is None and s['model'][0] != 'adversarial']
    results = common.pmap(j1_one, scns)
    bad = [r for r in results if not r['ok']]
    rep.count('traces_validated_against_impl',
              sum(1 for r in results if r['ok']))
    rep.count('real_command_invocations_compared',
              sum(r['n'] for r in results))
    rep.count('real_traces_matched_by_a_non_default_schedule',
              sum(1 for r in results if r.get('matched_with_deviations')))
    rep.count('real_traces_with_stale_invocations',
              sum(1 for r in results if r.get('matched_modulo_stale')))
    if bad:
        raise common.HarnessError(
            'conformance mismatch between the in-process model and the real '
            'program (the environment model misrepresents ddSMT): ' +
            '; '.join(f'{r["name"]}: {r["why"]}' for r in bad[:3]))
    return results


def jn_one(scn):
    """-j 2/3: the final output of real runs (real Pool, real Manager event,
    real subprocesses) must be one of the final outputs the model reaches
    within 2 schedule deviations (state pruning on)."""
    common.import_ddsmt()
    sched.install()
    outs = set()

    def on_exec(ch, x):
        if not x.pruned and x.crash is None:
            outs.add(FRESH.sub('x#__fresh', (x.out_bytes or b'').decode()))

    sched._VISITED.clear()
    pscn = dict(scn, prune=True)
    n, capped = explore.explore(lambda ch: sched.run_once(pscn, ch),
                                {'sched': 2}, on_exec, max_execs=6000)
    reals = []
    with common.scratch_dir('ddv-confn-') as d:
        for i in range(2):
            rc, runs, data, err = real_run(scn, d, f'r{i}')
            reals.append((rc, FRESH.sub('x#__fresh', (data or b'').decode()),
                          len(runs)))
    bad = [r for r in reals if r[0] != 0 or r[1] not in outs]
    return {'name': scn['name'], 'model_outputs': len(outs), 'execs': n,
            'real': [r[1] for r in reals], 'ok': not bad, 'capped': capped,
            'invocations': sum(r[2] for r in reals)}


def jn_conformance(rep, scenarios):
    scns = [s for s in scenarios if s.get('cc_model') is None and
            s['model'][0] != 'adversarial']
    results = common.pmap(jn_one, scns)
    good = [r for r in results if r['ok']]
    rep.count('traces_validated_against_impl', 2 * len(good))
    rep.count('real_parallel_runs_compared', 2 * len(results))
    rep.count('real_command_invocations_compared',
              sum(r['invocations'] for r in results))
    bad = [r for r in results if not r['ok'] and not r['capped']]
    if bad:
        raise common.HarnessError(
            'conformance mismatch: a real -j n run ended in an output that '
            'no model execution within 2 deviations produces: ' + '; '.join(
                f'{r["name"]}: real {r["real"]} model outputs '
                f'{r["model_outputs"]}' for r in bad[:3]))
    return results


# --------------------------------------------------------------------------
# GRAPH engine: every step the real program takes is an edge of the graph


def graph_one(item):
    """Run the real bin/ddsmt (-j 1) on a seed with a real command, take the
    chain of inputs it accepted, and check that every step is a transition of
    the rewrite graph as ddv/graph.py computes it from the predecessor."""
    name, text, strategy, model = item
    common.import_ddsmt()
    from . import graph, sexp
    graph.Meter.install()
    scn = {'name': name, 'input': text, 'model': model,
           'argv': ['--strategy', strategy, '-j', '1']}
    with common.scratch_dir('ddv-confg-') as d:
        rc, runs, data, err = real_run(scn, d, 'g')
    golden = None
    chain = []
    for r in runs:
        res = tuple(r['result'])
        if golden is None:
            golden = res
            continue
        if res == golden:
            chain.append([t for t in r['tokens']])
    out = {'name': name, 'strategy': strategy, 'steps': 0, 'edges_ok': 0,
           'missing': [], 'rc': rc}
    # with -j 1 every accepted candidate becomes the next input; stale
    # in-flight candidates that happen to be accepted are discarded by ddSMT,
    # so only follow steps that the graph confirms or that change the file
    from ddsmt import mutators

    def successors(state_text):
        cur = graph.parse(state_text)
        with common.quiet():
            common.set_args(['ddsmt', '--strategy', strategy, 'in', 'out',
                             'cmd'])
            mutators.auto_detect_theories(graph.parse(text))
        muts = graph.enabled_mutators()
        succ = set()
        props = list(graph.hier_proposals(cur, muts))
        if strategy != 'hierarchical':
            props += list(graph.ddmin_proposals(cur))
        for p in props:
            if p.result is not None:
                succ.add(tuple(FRESH.sub('x#__fresh', t) for t in
                               sexp.forest_tokens(sexp.norm(
                                   sexp.node_to_list(p.result)))))
        return succ

    history = [text]
    cache = {}
    out['stale'] = 0
    for cand in chain:
        want = tuple(sexp.strip_comment(FRESH.sub('x#__fresh', t))
                     for t in cand)
        out['steps'] += 1
        if history[-1] not in cache:
            cache[history[-1]] = successors(history[-1])
        if want in cache[history[-1]]:
            out['edges_ok'] += 1
            history.append('\n'.join(cand) + '\n')
            continue
        # a queued task of an earlier input that the single worker ran before
        # the main loop had set the abort flag: accepted by the command,
        # discarded by ddSMT
        stale = False
        for h in history[:-1]:
            if h not in cache:
                cache[h] = successors(h)
            if want in cache[h]:
                stale = True
                break
        if stale:
            out['stale'] += 1
            out['steps'] -= 1
            continue
        out['missing'].append(' '.join(cand)[:200])
        break
    return out


def graph_conformance(rep, seeds_, strategies=('hierarchical', )):
    items = []
    for name, text in seeds_:
        toks = [t for t in __import__('ddv.sexp', fromlist=['x']).token_texts(
            text) if t not in '()' and not t.startswith(';')]
        # a command that needs two tokens of the input: reductions happen,
        # but not down to nothing
        need = [t for t in toks if t not in ('assert', 'declare-const',
                                             'check-sat')][-2:]
        for st in strategies:
            items.append((name, text, st, ['has', need]))
    results = common.pmap(graph_one, items)
    ok = [r for r in results if not r['missing']]
    rep.count('traces_validated_against_impl', len(ok))
    rep.count('real_steps_checked_against_graph',
              sum(r['steps'] for r in results))
    rep.count('real_steps_that_are_graph_edges',
              sum(r['edges_ok'] for r in results))
    bad = [r for r in results if r['missing'] and
           r['strategy'] == 'hierarchical']
    if bad:
        raise common.HarnessError(
            'conformance mismatch: the real program accepted a step that is '
            'not a transition of the rewrite graph: ' + '; '.join(
                f'{r["name"]}: {r["missing"][0]}' for r in bad[:3]))
    return results
