"""Reference S-expression machinery, written from the SMT-LIB 2.6 document
(section 3.1, lexicon) and independent of ddSMT's code.

tokens  : tokenize(text) -> [(kind, text)], kind in  ( ) atom str qsym comment
reader  : read(text) -> nested python lists of token texts (comments are
          leaves, with their line terminator stripped)
writer  : serialize(tree) -> canonical one-line text (the harness's own key)
enumerators: trees(n, leaves), forests, sharing patterns
"""
import itertools

WS = ' \t\n\r'


class LexError(Exception):
    pass


def tokenize(text):
    """Maximal-munch SMT-LIB tokenizer."""
    res = []
    i, n = 0, len(text)
    while i < n:
        c = text[i]
        if c in WS:
            i += 1
        elif c == '(':
            res.append(('(', c))
            i += 1
        elif c == ')':
            res.append((')', c))
            i += 1
        elif c == ';':
            j = i
            while j < n and text[j] not in '\n\r':
                j += 1
            res.append(('comment', text[i:j]))
            i = j
        elif c == '"':
            j = i + 1
            while True:
                if j >= n:
                    raise LexError('unterminated string literal')
                if text[j] == '"':
                    if j + 1 < n and text[j + 1] == '"':
                        j += 2
                        continue
                    break
                j += 1
            res.append(('str', text[i:j + 1]))
            i = j + 1
        elif c == '|':
            j = text.find('|', i + 1)
            if j < 0:
                raise LexError('unterminated quoted symbol')
            res.append(('qsym', text[i:j + 1]))
            i = j + 1
        else:
            j = i
            while j < n and text[j] not in WS and text[j] not in '();"|':
                j += 1
            res.append(('atom', text[i:j]))
            i = j
    return res


def read_tokens(toks):
    """Token list -> list of top-level items (str leaves / nested lists)."""
    top = []
    stack = [top]
    for kind, t in toks:
        if kind == '(':
            new = []
            stack[-1].append(new)
            stack.append(new)
        elif kind == ')':
            if len(stack) == 1:
                raise LexError('unbalanced )')
            stack.pop()
        else:
            stack[-1].append(t)
    if len(stack) != 1:
        raise LexError('unbalanced (')
    return top


def read(text):
    return read_tokens(tokenize(text))


def token_texts(text, comments=True):
    """Flat list of token texts (comments optional)."""
    return [t for k, t in tokenize(text) if comments or k != 'comment']


def is_single_token(s):
    """Is ``s`` exactly one non-parenthesis token (or a comment)?"""
    try:
        toks = tokenize(s)
    except LexError:
        return False
    return (len(toks) == 1 and toks[0][0] not in '()' and toks[0][1] == s)


def strip_comment(s):
    """Normalise a comment leaf: drop the line terminator."""
    if isinstance(s, str) and s.startswith(';'):
        return s.rstrip('\r\n')
    return s


def norm(tree):
    """Normalise comment leaves in a nested-list tree (no copy of atoms)."""
    if isinstance(tree, str):
        return strip_comment(tree)
    return [norm(x) for x in tree]


def node_to_list(node):
    """ddSMT Node (or list of Nodes) -> nested lists; iterative."""
    if isinstance(node, (list, tuple)):
        return [node_to_list(x) for x in node]
    if isinstance(node.data, str):
        return node.data
    # explicit stack: ddSMT trees can be deep
    root = []
    stack = [(node, root)]
    while stack:
        nd, out = stack.pop()
        for ch in nd.data:
            if isinstance(ch.data, str):
                out.append(ch.data)
            else:
                new = []
                out.append(new)
                stack.append((ch, new))
    return root


def list_to_node(tree, Node):
    """nested lists -> ddSMT Node objects (every position a new object)."""
    if isinstance(tree, str):
        return Node(tree)
    return Node(*[list_to_node(x, Node) for x in tree])


def serialize(tree):
    """Canonical one-line text of a nested-list tree / forest item."""
    if isinstance(tree, str):
        return tree
    return '(' + ' '.join(serialize(x) for x in tree) + ')'


def serialize_all(forest):
    return '\n'.join(serialize(x) for x in forest)


def flat_tokens(tree):
    """Token sequence of a nested-list tree or forest (list at top)."""
    out = []

    def go(t):
        if isinstance(t, str):
            out.append(t)
        else:
            out.append('(')
            for x in t:
                go(x)
            out.append(')')

    go(tree)
    return out


def forest_tokens(forest):
    out = []
    for t in forest:
        out.extend(flat_tokens(t))
    return out


def count_nodes(tree):
    if isinstance(tree, str):
        return 1
    return 1 + sum(count_nodes(x) for x in tree)


# --------------------------------------------------------------------------
# enumerators

LEAF = object()


def shapes(n):
    """All ordered tree shapes with exactly n nodes.  A shape is LEAF or a
    tuple of shapes (the empty tuple is the empty list ``()``)."""
    if n == 1:
        yield LEAF
        yield ()
        return
    # an inner node with children of total size n-1
    for kids in forests_shapes(n - 1):
        if kids:
            yield tuple(kids)


def forests_shapes(total):
    """All sequences of shapes whose sizes sum to ``total`` (>=0)."""
    if total == 0:
        yield []
        return
    for first in range(1, total + 1):
        for s in shapes(first):
            for rest in forests_shapes(total - first):
                yield [s] + rest


def shapes_upto(n):
    for k in range(1, n + 1):
        yield from shapes(k)


def count_leaves(shape):
    if shape is LEAF:
        return 1
    return sum(count_leaves(s) for s in shape)


def fill(shape, leaves_iter):
    if shape is LEAF:
        return next(leaves_iter)
    return [fill(s, leaves_iter) for s in shape]


def trees(n, alphabet):
    """All trees with <= n nodes, leaves from ``alphabet`` (nested lists)."""
    for sh in shapes_upto(n):
        k = count_leaves(sh)
        for combo in itertools.product(alphabet, repeat=k):
            yield fill(sh, iter(combo))


def trees_exact(n, alphabet):
    for sh in shapes(n):
        k = count_leaves(sh)
        for combo in itertools.product(alphabet, repeat=k):
            yield fill(sh, iter(combo))


def forests(n, alphabet, max_trees=None):
    """All lists of trees with total node count <= n."""
    for total in range(0, n + 1):
        for fs in forests_shapes(total):
            if max_trees is not None and len(fs) > max_trees:
                continue
            k = sum(count_leaves(s) for s in fs)
            for combo in itertools.product(alphabet, repeat=k):
                it = iter(combo)
                yield [fill(s, it) for s in fs]


def positions(tree, path=()):
    """All positions (paths) of a nested-list tree/forest in pre-order.  For
    a forest (python list at top), the forest itself is not a position."""
    if isinstance(tree, str):
        yield path
        return
    yield path
    for i, x in enumerate(tree):
        yield from positions(x, path + (i, ))


def forest_positions(forest):
    for i, t in enumerate(forest):
        yield from positions(t, (i, ))


def at(tree, path):
    for i in path:
        tree = tree[i]
    return tree


def set_partitions(items):
    """All partitions of a list into blocks."""
    items = list(items)
    if not items:
        yield []
        return
    first, rest = items[0], items[1:]
    for p in set_partitions(rest):
        yield [[first]] + p
        for i in range(len(p)):
            yield p[:i] + [[first] + p[i]] + p[i + 1:]


def selftest():
    assert read('(a b)') == [['a', 'b']]
    assert read('(a\rb)') == [['a', 'b']]
    assert read('a ; c\n(b)') == ['a', '; c', ['b']]
    assert read('( ; c\r\n b)') == [['; c', 'b']]
    assert read('"a""b" |x y|') == ['"a""b"', '|x y|']
    assert read('(f "(" |)| ";" )') == [['f', '"("', '|)|', '";"']]
    assert read('"a"""') == ['"a"""']
    assert read('()') == [[]]
    assert read('(a)b') == [['a'], 'b']
    assert read('(a(b)c)') == [['a', ['b'], 'c']]
    assert read('a;x') == ['a', ';x']
    assert token_texts('(a #b01 :k 1.5)') == ['(', 'a', '#b01', ':k', '1.5', ')']
    assert is_single_token('|a b|') and not is_single_token('a b')
    assert not is_single_token('(str.++ s "a")_prefix')
    assert is_single_token('"a""b"') and not is_single_token('"a"b"')
    # shapes: 1 node: leaf, (); 2 nodes: (leaf) (())
    assert len(list(shapes(1))) == 2
    assert len(list(shapes(2))) == 2
    assert len(list(shapes(3))) == 2 + 4  # (x) nested: ((l)) ((())) ; two kids: 4
    assert sorted(serialize(t) for t in trees(2, ['a'])) == sorted(
        ['a', '()', '(a)', '(())'])
    assert len(list(set_partitions([1, 2, 3]))) == 5
    return True


if __name__ == '__main__':
    selftest()
    print('sexp selftest ok')
