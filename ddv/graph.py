"""GRAPH engine: explicit-state search of the rewrite graph (DESIGN 2.8).

States are inputs (lists of real Node objects), keyed by the harness's own
serialisation.  Transitions are the real mutators applied with the real
apply_simp / reduplicate after the real collect_information - the
hierarchical single-proposal steps and the ddmin group steps (obtained by
running the real TaskGenerator).  Every path of accepted inputs of any ddSMT
run, under any deterministic command and schedule, is a path of this graph.
"""
import hashlib
import signal

from . import common, sexp


class Budget(BaseException):
    pass


class Meter:
    """Deterministic work counter: Node hash calls + Node constructions."""
    n = 0
    limit = None
    installed = False

    @classmethod
    def install(cls):
        if cls.installed:
            return
        from ddsmt.nodes import Node

        def counted_hash(self):
            Meter.n += 1
            if Meter.limit is not None and Meter.n > Meter.limit:
                Meter.limit = None
                raise Budget()
            return self.hash

        Node.__hash__ = counted_hash

        class Counter(common.PrivateCounter):

            @property
            def value(self):
                return self._v

            @value.setter
            def value(self, v):
                self._v = v
                Meter.n += 1
                if Meter.limit is not None and Meter.n > Meter.limit:
                    Meter.limit = None
                    raise Budget()

        # keep counting where the current counter stands: nodes that exist
        # already must not get their ids handed out again
        from ddsmt.nodes import Node as _N
        cur = _N.__dict__.get('_Node__ID_COUNTER')
        start = getattr(cur, 'value', 0) if cur is not None else 0
        common.use_private_ids(start, Counter)

        def on_alarm(signum, frame):
            if Meter.limit is not None:
                Meter.limit = None
                raise Budget()

        signal.signal(signal.SIGVTALRM, on_alarm)
        cls.installed = True


def metered(fn, limit, cpu_s=10.0):
    """Run fn() under the count budget and a CPU-time backstop (the timer
    only runs while this process does, so machine load cannot trip it)."""
    Meter.n = 0
    Meter.limit = limit
    signal.setitimer(signal.ITIMER_VIRTUAL, cpu_s)
    try:
        return fn()
    finally:
        signal.setitimer(signal.ITIMER_VIRTUAL, 0)
        Meter.limit = None


def key_of(exprs):
    return '\n'.join(sexp.serialize(t) for t in sexp.node_to_list(exprs))


def digest(key):
    return hashlib.blake2b(key.encode('utf-8', 'surrogatepass'),
                           digest_size=8).digest()


def count_nodes(exprs):
    n = 0
    stack = list(exprs)
    while stack:
        x = stack.pop()
        n += 1
        if not isinstance(x.data, str):
            stack.extend(x.data)
    return n


class Proposal:
    __slots__ = ('mutator', 'kind', 'node', 'keys', 'fresh', 'result',
                 'error', 'stage', 'work')

    def __init__(self, mutator, kind, node):
        self.mutator = mutator
        self.kind = kind
        self.node = node
        self.keys = None
        self.fresh = None
        self.result = None
        self.error = None  # (stage, exception) or ('budget', stage)
        self.stage = None
        self.work = 0


def enabled_mutators():
    """All mutator instances any hierarchical pass uses: the last pass (all
    enabled mutators) plus instances that an earlier pass configures
    differently (BinaryReduction restricted to assert commands)."""
    from ddsmt import strategy_hierarchical
    passes = strategy_hierarchical.get_passes()
    out = []
    seen = set()
    for pid in range(len(passes) - 1, -1, -1):
        muts, params = strategy_hierarchical.get_pass(passes, pid)
        for m in muts:
            key = (type(m).__name__, getattr(m, 'ident', None))
            if key not in seen:
                seen.add(key)
                out.append(m)
    return out


def hier_proposals(exprs, muts, work_c=60):
    """Every proposal of every mutator at every node of ``exprs`` (the
    hierarchical step), each call under the work budget.  Yields Proposal
    objects; .result is the successor input or None."""
    from ddsmt import nodes, smtlib
    from ddsmt.mutator_utils import Simplification, apply_simp
    n = count_nodes(exprs)
    limit = work_c * (n + 10)**2
    try:
        metered(lambda: smtlib.collect_information(exprs), limit * 4)
    except Budget:
        p = Proposal('collect_information', 'tables', None)
        p.error = ('budget', 'collect_information')
        yield p
        return
    for node in list(nodes.bfs(exprs)):
        for m in muts:
            name = type(m).__name__
            if hasattr(m, 'filter'):
                p = Proposal(name, 'filter', node)
                try:
                    ok = metered(lambda: m.filter(node), limit)
                except Budget:
                    p.error = ('budget', 'filter')
                    yield p
                    return
                except Exception as e:  # noqa
                    p.error = ('filter', e)
                    yield p
                    continue
                if not ok:
                    continue
            for kind in ('mutations', 'global_mutations'):
                if not hasattr(m, kind):
                    continue
                try:
                    if kind == 'mutations':
                        it = metered(lambda: iter(m.mutations(node)), limit)
                    else:
                        it = metered(
                            lambda: iter(m.global_mutations(node, exprs)),
                            limit)
                except Budget:
                    p = Proposal(name, kind, node)
                    p.error = ('budget', kind)
                    yield p
                    return
                except Exception as e:  # noqa
                    p = Proposal(name, kind, node)
                    p.error = (kind, e)
                    yield p
                    continue
                while True:
                    p = Proposal(name, kind, node)
                    try:
                        simp = metered(lambda: next(it, None), limit)
                    except Budget:
                        p.error = ('budget', kind)
                        yield p
                        return
                    except Exception as e:  # noqa
                        p.error = (kind, e)
                        yield p
                        break
                    if simp is None:
                        break
                    p.work = Meter.n
                    if not isinstance(simp, Simplification):
                        p.error = (kind, TypeError(
                            f'not a Simplification: {simp!r}'))
                        yield p
                        continue
                    p.keys = dict(simp.substs)
                    p.fresh = list(simp.fresh_vars)
                    try:
                        res = metered(
                            lambda: apply_simp(exprs,
                                               Simplification(
                                                   dict(simp.substs),
                                                   simp.fresh_vars)), limit)
                        p.result = metered(lambda: nodes.reduplicate(res),
                                           limit)
                    except Budget:
                        p.error = ('budget', 'apply')
                        yield p
                        return
                    except Exception as e:  # noqa
                        p.error = ('apply', e)
                    yield p


def ddmin_proposals(exprs, work_c=60):
    """The ddmin group steps: for every ddmin pass mutator and every
    granularity of the halving sequence, every task the real TaskGenerator
    builds.  Yields Proposal objects (kind = 'ddmin:g<gran>')."""
    from ddsmt import nodes, smtlib, strategy_ddmin
    from ddsmt.mutator_utils import Simplification, apply_simp
    smtlib.collect_information(exprs)
    n = count_nodes(exprs)
    limit = work_c * (n + 10)**2 * 4
    passes = strategy_ddmin.ddmin_passes()
    for pi, (muts, depth) in enumerate(((passes[0], 1), (passes[1], None))):
        for m in muts:
            name = type(m).__name__
            gran = None
            while True:
                p = Proposal(name, f'ddmin:g{gran}', None)
                try:
                    tg = metered(
                        lambda: strategy_ddmin.TaskGenerator(
                            exprs, gran, m, depth), limit * 4)
                except Budget:
                    p.error = ('budget', 'taskgen-init')
                    yield p
                    break
                except Exception as e:  # noqa
                    p.error = ('taskgen-init', e)
                    yield p
                    break
                if gran is None:
                    gran = tg.gran
                while True:
                    p = Proposal(name, f'ddmin:g{gran}', None)
                    try:
                        task = metered(lambda: next(tg, None), limit * 4)
                    except Budget:
                        p.error = ('budget', 'taskgen-next')
                        yield p
                        break
                    except Exception as e:  # noqa
                        p.error = ('taskgen-next', e)
                        yield p
                        break
                    if task is None:
                        break
                    for simp in task.simplifications:
                        p = Proposal(name, f'ddmin:g{gran}', None)
                        p.keys = dict(simp.substs)
                        p.fresh = list(simp.fresh_vars)
                        try:
                            res = metered(
                                lambda: apply_simp(
                                    exprs,
                                    Simplification(dict(simp.substs),
                                                   simp.fresh_vars)), limit)
                            if res is not None:
                                p.result = metered(
                                    lambda: nodes.reduplicate(res), limit)
                        except Budget:
                            p.error = ('budget', 'apply')
                        except Exception as e:  # noqa
                            p.error = ('apply', e)
                        yield p
                gran = gran // 2
                if gran <= 0:
                    break


class Search:
    """Explicit-state search from one seed.  Records the explored graph
    (digests) and finds self loops and cycles (SCCs) in it."""

    def __init__(self, argv, depth=None, max_states=None, with_ddmin=True,
                 on_state=None, on_proposal=None, classify=None,
                 history_check=0):
        self.classify = classify
        # the mutator instances live as long as the search (as they live as
        # long as a run of ddSMT): at the first ``history_check`` states the
        # proposals are computed a second time with fresh instances and have
        # to be the same - the transition relation must be a function of
        # the current input, not of what the instances saw before
        self.history_check = history_check
        self.history_mismatches = []
        self.history_checked = 0
        self.clean_edges = set()
        self.kf_edges = {}
        self.edge_muts = {}
        self.argv = argv
        self.depth = depth
        self.max_states = max_states
        self.with_ddmin = with_ddmin
        self.on_state = on_state
        self.on_proposal = on_proposal
        self.adj = {}
        self.names = {}
        self.edge_label = {}
        self.self_loops = []
        self.n_transitions = 0
        self.capped = False
        self.max_depth_seen = 0
        self.label_pairs = set()

    def run(self, seed_exprs):
        common.set_args(['ddsmt'] + list(self.argv) +
                        ['in.smt2', 'out.smt2', 'cmd'])
        from ddsmt import mutators
        with common.quiet():
            mutators.auto_detect_theories(seed_exprs)
        muts = enabled_mutators()
        k0 = key_of(seed_exprs)
        d0 = digest(k0)
        self.root = d0
        import collections
        self.names[d0] = k0
        seen = {d0}
        queue = collections.deque([(seed_exprs, d0, 0, None)])
        while queue:
            # breadth first: every state is expanded at its minimal depth
            exprs, d, depth, inlabel = queue.popleft()
            if self.max_states and len(self.adj) >= self.max_states:
                self.capped = True
                break
            self.max_depth_seen = max(self.max_depth_seen, depth)
            if self.on_state:
                self.on_state(self, exprs, depth)
            succ = self.adj.setdefault(d, set())
            if self.depth is not None and depth >= self.depth:
                continue
            props = list(hier_proposals(exprs, muts))
            overrun = any(p.error and p.error[0] == 'budget' for p in props)
            if not overrun and self.history_checked < self.history_check:
                self.history_checked += 1
                import collections as _c
                fresh = list(hier_proposals(exprs, enabled_mutators()))
                a = _c.Counter((p.mutator, key_of(p.result)) for p in props
                               if p.result is not None)
                b = _c.Counter((p.mutator, key_of(p.result)) for p in fresh
                               if p.result is not None)
                if a != b and not any(p.error and p.error[0] == 'budget'
                                      for p in fresh):
                    self.history_mismatches.append(
                        (key_of(exprs), sorted((a - b).keys())[:3],
                         sorted((b - a).keys())[:3]))
            if self.with_ddmin and not overrun:
                props += list(ddmin_proposals(exprs))
                overrun = any(p.error and p.error[0] == 'budget'
                              for p in props)
            if overrun:
                # one hanging call is a verdict; do not pay for it again
                # at every other node and state
                self.capped = True
                for p in props:
                    if self.on_proposal and p.error and \
                            p.error[0] == 'budget':
                        self.on_proposal(self, exprs, depth, p)
                break
            for p in props:
                if self.on_proposal:
                    self.on_proposal(self, exprs, depth, p)
                if p.result is None:
                    continue
                self.n_transitions += 1
                k = key_of(p.result)
                dd = digest(k)
                label = (p.mutator, p.kind)
                kfe = self.classify(exprs, p) if self.classify else None
                if inlabel is not None:
                    self.label_pairs.add((inlabel[0], p.mutator))
                if dd == d:
                    if not p.kind.startswith('ddmin'):
                        self.self_loops.append(
                            (key_of(exprs), label,
                             sexp.serialize(sexp.node_to_list(p.node))
                             if p.node is not None else ''))
                    continue
                if dd not in succ:
                    succ.add(dd)
                    self.edge_label[(d, dd)] = label
                self.edge_muts.setdefault((d, dd), set()).add(
                    (p.mutator, kfe))
                if kfe is None:
                    self.clean_edges.add((d, dd))
                    self.edge_label[(d, dd)] = label
                else:
                    self.kf_edges.setdefault((d, dd), set()).add(kfe)
                if dd not in seen:
                    seen.add(dd)
                    self.names[dd] = k
                    queue.append((p.result, dd, depth + 1, label))
        return self

    def drop_states_only_reachable_through(self, kind):
        """Remove the states that are reachable from the seed only through
        edges that exist solely because of proposals classified as ``kind``
        (and all their edges).  Returns the number of states removed."""
        adj = {}
        for (a, b), labels in self.edge_muts.items():
            if any(k != kind for _, k in labels):
                adj.setdefault(a, set()).add(b)
        reach = {self.root}
        todo = [self.root]
        while todo:
            for b in adj.get(todo.pop(), ()):
                if b not in reach:
                    reach.add(b)
                    todo.append(b)
        gone = [d for d in self.adj if d not in reach]
        for d in gone:
            del self.adj[d]
        for d in self.adj:
            self.adj[d] = set(x for x in self.adj[d] if x in reach)
        for coll in (self.edge_muts, self.kf_edges, self.edge_label):
            for e in [e for e in coll if e[0] not in reach
                      or e[1] not in reach]:
                del coll[e]
        self.clean_edges = set(e for e in self.clean_edges
                               if e[0] in reach and e[1] in reach)
        return len(gone)

    def cycles_without(self, mutators_, also=()):
        """Cycles of the graph restricted to edges that exist through some
        proposal that is neither of one of ``mutators_`` nor classified as one
        of the known-finding kinds in ``also``."""
        adj = {}
        for (a, b), labels in self.edge_muts.items():
            if any(m not in mutators_ and k not in also
                   for m, k in labels):
                adj.setdefault(a, set()).add(b)
        saved, self.adj = self.adj, adj
        try:
            return self.cycles(False)
        finally:
            self.adj = saved

    def cycles(self, clean_only=False):
        """SCCs with more than one state in the explored graph (iterative
        Tarjan); returns list of cycles as [(key, label to next), ...].  With
        clean_only, edges that only exist through proposals classified as
        known findings are left out."""
        if clean_only:
            adj = {}
            for (a, b) in self.clean_edges:
                adj.setdefault(a, set()).add(b)
            saved, self.adj = self.adj, adj
            try:
                return self.cycles(False)
            finally:
                self.adj = saved
        index = {}
        low = {}
        onstack = set()
        st = []
        out = []
        counter = [0]
        for root in list(self.adj):
            if root in index:
                continue
            work = [(root, iter(self.adj.get(root, ())))]
            index[root] = low[root] = counter[0]
            counter[0] += 1
            st.append(root)
            onstack.add(root)
            while work:
                v, it = work[-1]
                adv = False
                for w in it:
                    if w not in index:
                        index[w] = low[w] = counter[0]
                        counter[0] += 1
                        st.append(w)
                        onstack.add(w)
                        work.append((w, iter(self.adj.get(w, ()))))
                        adv = True
                        break
                    elif w in onstack:
                        low[v] = min(low[v], index[w])
                if adv:
                    continue
                work.pop()
                if work:
                    u = work[-1][0]
                    low[u] = min(low[u], low[v])
                if low[v] == index[v]:
                    comp = []
                    while True:
                        w = st.pop()
                        onstack.discard(w)
                        comp.append(w)
                        if w == v:
                            break
                    if len(comp) > 1:
                        out.append(comp)
        res = []
        for comp in out:
            cs = set(comp)
            # walk one cycle inside the component
            start = comp[0]
            path = [start]
            seen = {start}
            cur = start
            while True:
                nxt = next((w for w in self.adj.get(cur, ()) if w in cs),
                           None)
                if nxt is None:
                    break
                if nxt in seen:
                    i = path.index(nxt)
                    path = path[i:]
                    path.append(nxt)
                    break
                path.append(nxt)
                seen.add(nxt)
                cur = nxt
            res.append([(self.names.get(a, '?'),
                         self.edge_label.get((a, b)))
                        for a, b in zip(path, path[1:])])
        return res


def parse(text):
    from ddsmt import nodeio
    return list(nodeio.parse_smtlib(text))


def selftest():
    return True
