"""Oracles evaluated on executions of the SCHED engine."""
from . import common, sched, sexp


def opts_of(scn):
    a = scn.get('argv', [])

    def val(flag):
        return a[a.index(flag) + 1] if flag in a else None

    return {
        'ignore_out': '--ignore-output' in a or '--ignore-out' in a,
        'ignore_err': '--ignore-output' in a or '--ignore-err' in a,
        'match_out': val('--match-out'),
        'match_err': val('--match-err'),
        'ignore_cc': '--ignore-output-cc' in a,
        'match_out_cc': val('--match-out-cc'),
        'match_err_cc': val('--match-err-cc'),
        'strategy': val('--strategy') or 'hybrid',
        'jobs': int(val('-j') or 1),
    }


def stream_ok(ignored, match, golden, run):
    if ignored:
        return True
    if match:
        return match in run
    return run == golden


def matches(golden, run, ign_out, ign_err, m_out, m_err):
    return (run[0] == golden[0]
            and stream_ok(ign_out, m_out, golden[1], run[1])
            and stream_ok(ign_err, m_err, golden[2], run[2]))


class Frozen:
    """rt stand-in for re-running a deterministic model outside a run."""

    def __init__(self, rt):
        self.memo = rt.memo
        self.input_tokens = rt.input_tokens

    def choose(self, *a, **k):
        raise KeyError('adversarial command asked about an unseen candidate')


def accepts(scn, rt, tokens):
    """Would the command model (and cross-check model) accept a file with
    this token sequence, under the scenario's comparison options?  Returns
    True / False / None (None: adversarial command never saw it)."""
    o = opts_of(scn)
    toks = sched.norm_tokens(tokens)
    fz = Frozen(rt)
    try:
        g = sched.run_model(scn['model'], rt.input_tokens, fz)
        r = sched.run_model(scn['model'], toks, fz)
    except KeyError:
        return None
    if not matches(g, r, o['ignore_out'], o['ignore_err'], o['match_out'],
                   o['match_err']):
        return False
    if scn.get('cc_model') is not None:
        try:
            g = sched.run_model(scn['cc_model'], rt.input_tokens, fz)
            r = sched.run_model(scn['cc_model'], toks, fz)
        except KeyError:
            return None
        if not matches(g, r, o['ignore_cc'], o['ignore_cc'],
                       o['match_out_cc'], o['match_err_cc']):
            return False
    return True


def brief_tokens(toks, n=60):
    s = ' '.join(toks)
    return s if len(s) <= n * 4 else s[:n * 4] + ' ...'


def viol(part, prop_kind, scn, x, detail, extra=None):
    vec = x.rt.ch.vector()
    sig = f'{prop_kind}|{scn["name"]}'
    rec = {
        'brief': f'{prop_kind.replace("|", ": ")} in scenario {scn["name"]} '
                 f'(argv {scn.get("argv")}): {detail}',
        'scenario': {k: v for k, v in scn.items()},
        'choices': [list(v) if isinstance(v, tuple) else v for v in vec],
        'detail': detail,
    }
    if extra:
        rec.update(extra)
    common.pviolation(part, sig, rec)


# --------------------------------------------------------------------------
# C01


def judge_c01(part, scn, x):
    rt = x.rt
    if x.crash is not None:
        common.pcount(part, 'crashed_executions')
        return
    if not x.input_unchanged:
        viol(part, 'C01|input-file-modified', scn, x, 'input file changed')
    # the command-side log: which token sequences were run and accepted
    o = opts_of(scn)
    fz = Frozen(rt)
    g_main = sched.run_model(scn['model'], rt.input_tokens, fz)
    g_cc = None
    if scn.get('cc_model') is not None:
        g_cc = sched.run_model(scn['cc_model'], rt.input_tokens, fz)
    main_ok, cc_ok = set(), set()
    for e in x.log:
        if e[0] != 'run':
            continue
        _, which, toks, res = e[:4]
        if which == 'main' and matches(g_main, res, o['ignore_out'],
                                       o['ignore_err'], o['match_out'],
                                       o['match_err']):
            main_ok.add(toks)
        if which == 'cc' and matches(g_cc, res, o['ignore_cc'],
                                     o['ignore_cc'], o['match_out_cc'],
                                     o['match_err_cc']):
            cc_ok.add(toks)
    accepted = main_ok if g_cc is None else (main_ok & cc_ok)
    any_success = any(e[0] == 'verdict' and e[2] for e in x.log)
    if x.pruned:
        # cut at an already visited state: judge only what happened so far
        shared_files(part, scn, x)
        return
    if x.out_bytes is None:
        if x.rc == 0 and any_success:
            viol(part, 'C01|no-output-file', scn, x,
                 'a candidate was accepted but no output file exists')
        return
    common.pcount(part, 'executions_with_output')
    toks = sched.out_tokens(x)
    ntoks = toks
    ok = accepts(scn, rt, toks)
    if ok is not True:
        viol(part, 'C01|output-does-not-reproduce-golden', scn, x,
             f'command model on the output file gives a non-matching result;'
             f' output tokens: {brief_tokens(ntoks)}')
    if ntoks not in accepted:
        viol(part, 'C01|output-not-an-accepted-candidate', scn, x,
             f'token sequence of the output file was never run and accepted: '
             f'{brief_tokens(ntoks)}')
    shared_files(part, scn, x)


def shared_files(part, scn, x):
    # candidate files must be process-private (this is what makes a verdict
    # belong to its candidate)
    rt = x.rt
    seen = {}
    for w, paths in rt.paths_by_worker.items():
        for p in paths:
            if p in seen and seen[p] != w:
                viol(part, 'C01|candidate-file-shared-between-processes',
                     scn, x, f'{p} written by processes {seen[p]} and {w}')
            seen[p] = w


# --------------------------------------------------------------------------
# C05


def judge_c05(part, scn, x):
    if x.crash is not None:
        common.pcount(part, 'crashed_executions')
        return
    rt = x.rt
    cur = rt.input_tokens  # comments dropped
    derives = {}  # cand -> set of bases
    verdict_true = set()
    n_writes = 0
    last_file = None
    discarded = 0
    for e in x.log:
        if e[0] == 'derive':
            _, base, cand, w = e
            if cand is not None:
                derives.setdefault(sched.norm_tokens(cand),
                                   set()).add(sched.norm_tokens(base))
        elif e[0] == 'verdict':
            if e[2]:
                verdict_true.add(sched.norm_tokens(e[1]))
        elif e[0] == 'write':
            n_writes += 1
            _, ftoks, mem, data = e
            w = sched.norm_tokens(ftoks)
            last_file = data
            if w not in verdict_true:
                viol(part, 'C05|written-content-never-accepted', scn, x,
                     f'write #{n_writes}: {brief_tokens(w)}')
            elif w == cur:
                # ddmin may re-accept an unchanged input through a stale
                # subset; not a new chain element
                common.pcount(part, 'rewrites_of_same_content')
            elif cur not in derives.get(w, ()):
                viol(part, 'C05|not-derived-from-predecessor', scn, x,
                     f'write #{n_writes} {brief_tokens(w)} was derived from '
                     f'{[brief_tokens(b, 20) for b in derives.get(w, [])]}, '
                     f'not from its predecessor {brief_tokens(cur, 30)}')
            cur = w
    if n_writes:
        common.pcount(part, 'executions_with_writes')
        if not x.pruned and x.out_bytes != last_file:
            viol(part, 'C05|file-at-exit-is-not-last-write', scn, x,
                 'output file at exit differs from the last written content')
    succ = sum(1 for e in x.log if e[0] == 'verdict' and e[2])
    if succ > n_writes:
        common.pcount(part, 'executions_with_discarded_success')


# --------------------------------------------------------------------------
# C13 (history part)


def judge_c13(part, scn, x):
    for e in x.log:
        if e[0] == 'generated':
            common.pcount(part, 'generator_constructions')
            if e[3]:
                viol(part, 'C13|repeated-node-id-in-generator-input', scn, x,
                     f'{e[1]} generator ({e[4]}) built from an input in '
                     f'which node ids {sorted(e[3])[:4]} occur more than '
                     f'once: {brief_tokens(e[2])}')
                return


# --------------------------------------------------------------------------
# C02


def proposals_on(final_exprs):
    """Every candidate that any enabled mutator proposes for any node of
    ``final_exprs``: yields (mutator, node index, candidate token sequence).
    The mutators are taken from the registry and the option flags and are
    driven by the harness's own loop (ddv/graph.py) - not by the pass list or
    the Producer, which are part of what is being checked.  Candidates are
    rendered by the checking renderer and read back with the reference
    tokenizer, exactly as the command would see them."""
    import os
    from ddsmt import mutators, nodeio
    from . import graph
    graph.Meter.install()
    names = [m for grp in mutators.get_all_mutators().values()
             for m in grp[1]]
    muts = mutators.get_mutators(names)
    path = os.path.join(sched.workdir(), 'c02-candidate.smt2')
    order = {}
    from ddsmt import nodes
    for i, n in enumerate(nodes.bfs(final_exprs)):
        order[n.id] = i + 1
    for p in graph.hier_proposals(final_exprs, muts):
        if p.result is None:
            continue
        try:
            nodeio.write_smtlib_for_checking(path, p.result)
            with open(path) as f:
                toks = tuple(sexp.strip_comment(t)
                             for t in sexp.token_texts(f.read()))
        except Exception:  # noqa  (ddSMT skips such proposals the same way)
            continue
        yield (p.mutator + (' (global)' if p.kind == 'global_mutations'
                            else ''),
               order.get(p.node.id, 0) if p.node is not None else 0, toks)


def judge_c02(part, scn, x):
    if x.pruned:
        return
    if x.crash is not None or x.rc != 0:
        common.pcount(part, 'crashed_or_failed_executions')
        return
    rt = x.rt
    if rt.final_exprs is None:
        return
    common.pcount(part, 'final_states_checked')
    sched.Runtime.current = None
    n = 0
    final = rt.final_exprs
    if scn['model'][0] != 'adversarial' and x.out_bytes is not None:
        # the statement is about the final *output*: read it back (every
        # position gets its own identity, whatever the run left in memory)
        from ddsmt import nodeio
        final = list(nodeio.parse_smtlib(x.out_bytes.decode('utf-8')))
    with common.quiet():
        props = list(proposals_on(final))
    for name, nodeid, toks in props:
        n += 1
        ok = accepts(scn, rt, toks)
        if ok is False:
            continue
        why = ('is accepted by the command' if ok else
               'was never put to the command (a deterministic command '
               'consistent with everything ddSMT saw accepts it)')
        viol(part, 'C02|not-a-fixed-point', scn, x,
             f'proposal "{name}" at node {nodeid} of the final input {why}: '
             f'{brief_tokens(toks)}; final input: '
             f'{brief_tokens(sched.tokens_of_exprs(rt.final_exprs))}')
        break
    common.pcount(part, 'proposals_rechecked', n)
    # second formulation, on default-schedule executions of concrete models:
    # hierarchical on its own output must report "unable to minimize"
    if scn['model'][0] != 'adversarial' and not x.rt.ch.deviations() and \
            x.out_bytes is not None:
        from . import explore
        scn2 = dict(scn)
        a = list(scn['argv'])
        a[a.index('--strategy') + 1] = 'hierarchical'
        scn2['argv'] = a
        scn2['input'] = x.out_bytes.decode('utf-8')
        scn2['golden_from'] = scn['input']
        y = sched.run_once(scn2, explore.Chooser([]))
        common.pcount(part, 'second_runs')
        msgs = [m for lvl, m in y.messages]
        acc = [e for e in y.log if e[0] == 'verdict' and e[2]]
        if y.crash is None and (acc or
                                'unable to minimize input file' not in msgs):
            viol(part, 'C02|second-run-still-reduces', scn, x,
                 f'hierarchical run on the output accepted {len(acc)} '
                 f'candidates; output was {x.out_bytes[:200]!r}')
