"""Stateless, deviation-bounded exploration of a choice tree (DESIGN 2.4).

A *driver* ``run(ch)`` performs one execution of the system and calls
``ch.choose(tag, n, default, kind)`` wherever the environment has ``n``
possible answers.  ``explore`` enumerates every choice vector whose number of
non-default answers per kind stays within ``budgets`` - exhaustively, each
vector exactly once - by re-executing prefixes.
"""
from . import common


class ReplayDivergence(common.HarnessError):
    pass


class Pruned(BaseException):
    """Raised by a driver when the execution reached, beyond its prefix, a
    state that was already visited with at least the same remaining budgets:
    every continuation is (being) explored from that earlier visit."""


class Chooser:

    def __init__(self, prefix=(), budgets=None):
        self.prefix = list(prefix)
        self.log = []  # [tag, n, choice, default, kind]
        self.budgets = budgets

    def beyond_prefix(self):
        return len(self.log) >= len(self.prefix)

    def remaining(self):
        """Remaining deviation budget per kind (None if unknown)."""
        if self.budgets is None:
            return None
        used = self.deviations()
        return tuple(sorted((k, b - used.get(k, 0))
                            for k, b in self.budgets.items()))

    def choose(self, tag, n, default=0, kind='sched'):
        if n <= 0:
            raise common.HarnessError(f'choice point {tag} without options')
        i = len(self.log)
        if i < len(self.prefix):
            want_tag, c = self.prefix[i]
            if want_tag is not None and want_tag != tag:
                raise ReplayDivergence(
                    f'replay diverged at point {i}: expected {want_tag!r}, '
                    f'got {tag!r}')
            if c >= n:
                raise ReplayDivergence(
                    f'replay diverged at point {i} ({tag!r}): choice {c} of '
                    f'{n}')
        else:
            c = default
        self.log.append((tag, n, c, default, kind))
        return c

    def vector(self):
        return [(t, c) for t, n, c, d, k in self.log]

    def deviations(self):
        res = {}
        for t, n, c, d, k in self.log:
            if c != d:
                res[k] = res.get(k, 0) + 1
        return res


def children(ch, budgets):
    """Prefixes that extend execution ``ch`` by one new deviation at a
    position not fixed by its own prefix."""
    out = []
    used = {}
    costs = []
    for t, n, c, d, k in ch.log:
        costs.append(dict(used))
        if c != d:
            used[k] = used.get(k, 0) + 1
    vec = ch.vector()
    for i in range(len(ch.prefix), len(ch.log)):
        t, n, c, d, k = ch.log[i]
        if n == 1:
            continue
        before = costs[i].get(k, 0)
        if before + 1 > budgets.get(k, 0):
            continue
        for alt in range(n):
            if alt == c:
                continue
            # c is the default here (positions beyond the prefix)
            out.append(vec[:i] + [(t, alt)])
    return out


PRUNED = object()
stats = {}


def explore(run, budgets, on_exec, max_execs=None, roots=None):
    """Depth-first enumeration.  ``on_exec(ch, outcome)`` is called for every
    complete execution (not for executions cut short by state pruning, whose
    continuations are covered by an earlier visit of the same state).
    Returns (#executions, capped?)."""
    stack = [list(r) for r in (roots if roots is not None else [[]])]
    stack.reverse()
    n = 0
    while stack:
        if max_execs is not None and n >= max_execs:
            return n, True
        prefix = stack.pop()
        ch = Chooser(prefix, budgets)
        try:
            out = run(ch)
        except Pruned:
            out = PRUNED
        n += 1
        if out is not PRUNED:
            on_exec(ch, out)
        else:
            stats['pruned'] = stats.get('pruned', 0) + 1
        kids = children(ch, budgets)
        kids.reverse()
        stack.extend(kids)
    return n, False


def frontier(run, budgets, on_exec, want=64):
    """Breadth-first expansion from the root until at least ``want`` open
    prefixes exist (for distribution over worker processes).  Executions done
    here are reported through ``on_exec``; returns the open prefixes."""
    open_ = [[]]
    n = 0
    while open_ and len(open_) < want:
        prefix = open_.pop(0)
        ch = Chooser(prefix, budgets)
        try:
            out = run(ch)
        except Pruned:
            out = PRUNED
        n += 1
        if out is not PRUNED:
            on_exec(ch, out)
        else:
            stats['pruned'] = stats.get('pruned', 0) + 1
        open_.extend(children(ch, budgets))
    return open_, n


def selftest():
    # toy system: 3 binary choice points, always; budget k -> C(3,<=k)
    def run(ch):
        return tuple(ch.choose(f'p{i}', 2) for i in range(3))

    for k, want in ((0, 1), (1, 4), (2, 7), (3, 8)):
        seen = []
        n, capped = explore(run, {'sched': k}, lambda ch, o: seen.append(o))
        assert n == want and len(set(seen)) == want, (k, n, seen)
    # data-dependent tree: second point only exists after choice 1
    def run2(ch):
        a = ch.choose('a', 3)
        if a == 1:
            return (a, ch.choose('b', 2))
        return (a, )

    seen = []
    explore(run2, {'sched': 5}, lambda ch, o: seen.append(o))
    assert sorted(seen) == [(0, ), (1, 0), (1, 1), (2, )], seen
    # frontier + subtree exploration covers the same set
    seen = []
    op, _ = frontier(run, {'sched': 3}, lambda ch, o: seen.append(o), want=3)
    explore(run, {'sched': 3}, lambda ch, o: seen.append(o), roots=op)
    assert len(seen) == 8 and len(set(seen)) == 8, seen
    return True
