"""Scenario menus for the SCHED engine (DESIGN 2.7): small inputs, command
models, option sets."""

BOOL5 = '''(set-logic QF_UF)
(declare-const a Bool)
(declare-const b Bool)
(declare-const c Bool)
(assert (and a (or b c)))
(assert (not (and a b)))
(check-sat)
'''

BV = '''(set-logic QF_BV)
(declare-const x (_ BitVec 4))
(declare-const y (_ BitVec 4))
(assert (= (bvadd x y) #b0011))
(assert (bvult x (bvnot y)))
(check-sat)
'''

INT = '''(declare-const n Int)
(declare-const m Int)
(assert (> (+ n 2) (* m 3)))
(assert (not (= n m)))
(check-sat)
'''

STR = '''(declare-const s String)
(declare-const t String)
(assert (str.contains s "abc"))
(assert (= (str.len t) 5))
(check-sat)
'''

BINDERS = '''(define-fun f ((u Int)) Int (+ u 1))
(declare-const k Int)
(assert (let ((v (f k))) (> v 0)))
(assert (forall ((w Int)) (>= (f w) w)))
(check-sat)
'''

ASSERTS8 = '''(declare-const p Bool)
(declare-const q Bool)
(assert p)
(assert q)
(assert (or p q))
(assert (not p))
(assert (and p q))
(assert (=> p q))
(assert (xor p q))
(assert (= p q))
(check-sat)
'''

CONSTS = '''(declare-const v1 Int)
(declare-const v2 Int)
(declare-const v3 Int)
(assert (= v1 5))
(assert (= v2 7))
(assert (= v3 9))
(assert (> v1 3))
(assert (> v2 4))
(assert (> v3 6))
(check-sat)
'''

COMMENTED = '''; header comment
(set-info :status sat)
(declare-const a Bool)
(declare-const |b c| Bool)
(assert (or a ; inner comment
 |b c|))
(assert (= "x y" "x y"))
(check-sat)
'''

MICRO = '''(declare-const a Bool)
(assert (and a a))
(check-sat)
'''

MICRO2 = '''(declare-const a Bool)
(declare-const b Bool)
(assert (or a b))
'''

INPUTS = {
    'bool5': BOOL5, 'bv': BV, 'int': INT, 'str': STR, 'binders': BINDERS,
    'asserts8': ASSERTS8, 'consts': CONSTS, 'consts2': CONSTS, 'commented': COMMENTED,
    'micro': MICRO, 'micro2': MICRO2,
}

# command models per input: (name, model)
MODELS = {
    'bool5': [('and+b', ('has', ['and', 'b'])), ('not', ('has', ['not'])),
              ('c', ('has', ['c', 'or']))],
    'bv': [('bvadd', ('has', ['bvadd'])), ('x+bvult', ('has', ['x',
                                                               'bvult']))],
    'int': [('+', ('has', ['+', 'n'])), ('not=', ('has', ['not', '=']))],
    'str': [('contains', ('has', ['str.contains'])),
            ('len', ('has', ['str.len', 't']))],
    'binders': [('f', ('has', ['f'])), ('forall', ('has', ['forall']))],
    'asserts8': [('3asserts', ('count', 'assert', 3)),
                 ('xor', ('has', ['xor', 'p']))],
    'consts': [('4gt', ('count', '>', 2)), ('v2', ('has', ['v2', '=']))],
    'commented': [('or', ('has', ['or'])), ('str', ('has', ['"x y"']))],
    'micro': [('a', ('has', ['and']))],
    'micro2': [('or', ('has', ['or']))],
}

# models that need most of the input: big-granularity ddmin steps fail, so
# that granularity 1 has more than 2*jobs subsets and _check_par is used
MODELS_DDMIN = {
    'asserts8': [('6asserts', ('count', 'assert', 6)),
                 ('7asserts', ('count', 'assert', 7))],
    'consts': [('5of6', ('count', 'assert', 5)),
               ('consts579', ('has', ['5', '7', '9', 'v1', 'v2', 'v3']))],
    'bool5': [('most', ('has', ['and', 'or', 'not', 'c']))],
    # keeps every assertion and variable but not the constants: accepted
    # steps replace a leaf by a leaf of the same length (5 -> 0)
    'consts2': [('keepshape', ('and', ('count', 'assert', 6),
                               ('has', ['v1', 'v2', 'v3', '=', '>'])))],
    'int': [('most', ('has', ['+', '*', 'not', '2', '3']))],
}

STREAMS = {
    # exit / stdout / stderr depend on different tokens, so that the
    # comparison options genuinely differ
    'bool5': ('streams', ['and'], ['b'], ['not']),
    'int': ('streams', ['n'], ['+'], ['not']),
    'asserts8': ('streams', ['p'], ['xor'], ['=>']),
}

COMPARISONS = [
    [], ['--ignore-output'], ['--ignore-out'], ['--ignore-err'],
    ['--match-out', 'A'], ['--match-err', 'A'],
    ['--match-out', 'A', '--ignore-err'], ['--ignore-out', '--match-err', 'A'],
]

FORMATS = [[], ['--pretty-print'], ['--wrap-lines']]
STRATEGIES = ['ddmin', 'hierarchical', 'hybrid']

MUTATOR_SETS = {
    'default': [],
    'erase': ['--disable-all', '--erase-node'],
    'core': ['--disable-all', '--core'],
    'nofresh': ['--no-introduce-fresh-variables'],
    'smtlib': ['--disable-all', '--smtlib', '--erase-node'],
    'boolean': ['--disable-all', '--boolean', '--erase-node'],
}


def mk(name, inp, model, strategy, j, extra=(), cc_model=None, **kw):
    argv = ['--strategy', strategy, '-j', str(j)] + list(extra)
    d = {
        'name': name, 'input': INPUTS[inp] if inp in INPUTS else inp,
        'argv': argv, 'model': model, 'cc_model': cc_model
    }
    d.update(kw)
    return d


# A job built around the window between resetting and refilling the symbol
# tables: only `Constants` is enabled, y -> false is accepted first, and
# x -> false is acceptable only afterwards.  A task generator that looks up
# the sort of x while the tables are empty leaves "x has no sort" behind.
WINDOW_INPUT = ('(declare-const x Bool)\n(declare-const a Bool)\n'
                '(declare-const y Bool)\n(assert y)\n(assert (or x a))\n')
_WD = (r'\( declare-const x Bool \) \( declare-const a Bool \) '
       r'\( declare-const y Bool \) ')
WINDOW_MODEL = ('re', '^' + _WD + r'\( assert (y \) \( assert \( or x a|'
                r'false \) \( assert \( or (x|false) a) \) \)$')
WINDOW_ARGS = ['--disable-all', '--constants']
