#!/venv/bin/python -S
"""A real command whose behaviour is a SCHED command model: exit code and
streams are computed from the token sequence of the file; every invocation is
logged (tokens, result) to $DDV_CMDLOG.  Used by the REAL conformance tier."""
import json
import os
import sys

sys.path.insert(0, os.environ['DDV_VERIF'])
from ddv import sexp  # noqa: E402


def run_model(model, tokens):
    kind = model[0]
    toks = set(tokens)
    if kind == 'has':
        return (1 if all(t in toks for t in model[1]) else 0, '', '')
    if kind == 'streams':
        _, ex, out, err = model
        return (1 if all(t in toks for t in ex) else 0,
                'A' if all(t in toks for t in out) else 'B',
                'xAy' if all(t in toks for t in err) else 'z')
    if kind == 'count':
        return (1 if sum(1 for t in tokens if t == model[1]) >= model[2]
                else 0, '', '')
    if kind == 'anyof':
        text = ' ' + ' '.join(tokens) + ' '
        return (1 if any((' ' + sh + ' ') in text for sh in model[1]) else 0,
                '', '')
    if kind == 're':
        import re
        return (1 if re.search(model[1], ' '.join(tokens)) else 0, '', '')
    if kind == 'and':
        return (1 if all(run_model(m, tokens)[0] for m in model[1:]) else 0,
                '', '')
    raise SystemExit(f'unknown model {model}')


def main():
    model = json.loads(os.environ['DDV_MODEL'])
    path = sys.argv[-1]
    with open(path, 'rb') as f:
        data = f.read()
    try:
        toks = [sexp.strip_comment(t)
                for t in sexp.token_texts(data.decode('utf-8'))]
    except sexp.LexError:
        toks = ['<unlexable>']
    norm = [t for t in toks if not t.startswith(';')]
    res = run_model(model, norm)
    delay = os.environ.get('DDV_DELAY')
    log = os.environ.get('DDV_CMDLOG')
    if log:
        fd = os.open(log, os.O_WRONLY | os.O_APPEND | os.O_CREAT, 0o644)
        os.write(fd, (json.dumps({'tokens': toks, 'result': list(res),
                                  'pid': os.getpid(),
                                  'file': os.path.basename(path)}) +
                      '\n').encode())
        os.close(fd)
    sys.stdout.write(res[1])
    sys.stderr.write(res[2])
    sys.exit(res[0])


main()
