"""C03 - minimisation always terminates: no mutation cycles, no no-op
proposals, no hanging mutators (GRAPH engine).  DESIGN 3/C03."""
from .. import common, graph, seeds

PROP = 'C03'

SUBSTITUTING = ('EliminateVariable', 'LetSubstitution', 'InlineDefinedFuns')
CLOSURE = ['--no-erase-node', '--no-binary-reduction',
           '--no-introduce-fresh-variables']


def _init():
    common.import_ddsmt()
    graph.Meter.install()


_IDMAP = [None, None]


def idmap(exprs):
    """id -> (node, inside an (fp ...) term?) for the current state."""
    if _IDMAP[0] is exprs:
        return _IDMAP[1]
    m = {}
    stack = [(e, False) for e in exprs]
    while stack:
        n, infp = stack.pop()
        m[n.id] = (n, infp)
        if not n.is_leaf():
            here = infp or (n.has_ident() and n.get_ident() == 'fp')
            stack.extend((c, here) for c in n.data)
    _IDMAP[0], _IDMAP[1] = exprs, m
    return m


def classify(exprs, p):
    """Known findings (known_findings.json): proposals whose edges are left
    out when looking for cycles that are *not* explained by them."""
    from ddsmt import smtlib
    if not p.keys:
        return None
    vals = list(p.keys.values())
    if p.mutator in ('ReplaceByVariable', 'IntroduceFreshVariable'):
        # a term (or variable) is replaced by a declared variable: the
        # inverse of what the substituting mutators do
        if all(r is not None and not isinstance(r, tuple) and r.is_leaf()
               and not smtlib.is_defined_fun(r) for r in vals):
            return 'rbv-inverse-of-substitution'
    if p.mutator in ('Constants', 'BVSimplifyConstants',
                     'BVNormalizeConstants'):
        m = idmap(exprs)

        def in_fp(k):
            if isinstance(k, int):
                return k in m and m[k][1]
            # structural key: every occurrence has to lie inside an fp term
            occ = [v for v in m.values() if v[0] == k]
            return bool(occ) and all(v[1] for v in occ)

        if all(in_fp(k) for k in p.keys):
            return 'constants-inside-fp-constant'

        def is_fp(k):
            if isinstance(k, int):
                n = m[k][0] if k in m else None
            else:
                n = k
            return n is not None and not n.is_leaf() and n.has_ident() \
                and n.get_ident() == 'fp'

        if p.mutator == 'Constants' and all(is_fp(k) for k in p.keys):
            # the other half of the same defect: a damaged / simplified
            # (fp ...) term is put back to a default constant
            return 'constants-at-fp-term'
    if p.mutator == 'EliminateVariable':
        # a variable is replaced by a term that depends on it through the
        # definition of a defined function
        m = idmap(exprs)
        through = False
        for k, r in p.keys.items():
            t = m[k][0] if isinstance(k, int) and k in m else k
            if isinstance(t, int) or r is None or isinstance(r, tuple):
                continue
            if depends_through_definition(r, t):
                through = True
        if through:
            return 'ev-through-definition'
    if p.mutator == 'EliminateVariable' and p.kind.startswith('ddmin'):
        # a ddmin group merges the first proposal of several equalities into
        # one simultaneous substitution
        targets = set()
        m = idmap(exprs)
        for k in p.keys:
            if isinstance(k, int) and k in m:
                targets.add(str(m[k][0]))
        if len(targets) > 1:
            return 'ev-ddmin-group-simultaneous'
    return None


def depends_through_definition(term, var):
    """Does ``term`` mention ``var`` via the definition of a defined
    function (tables of the current state)?"""
    from ddsmt import nodes, smtlib
    todo = []
    seen = set()
    for n in nodes.dfs(term):
        if n.is_leaf() and smtlib.is_defined_fun(n) and n.data not in seen:
            seen.add(n.data)
            todo.append(smtlib.get_defined_fun(n))
    while todo:
        for n in nodes.dfs(todo.pop()):
            if n == var:
                return True
            if n.is_leaf() and smtlib.is_defined_fun(n) and \
                    n.data not in seen:
                seen.add(n.data)
                todo.append(smtlib.get_defined_fun(n))
    return False


def run_unit(unit):
    name, text, regime, mode, depth, cap = unit
    part = common.part_result()
    argv = (CLOSURE if regime == 'closure' else []) + \
        ['--replace-by-variable-mode', mode]
    hangs = []

    def on_proposal(s, exprs, d, p):
        if p.error is not None and p.error[0] == 'budget':
            hangs.append((graph.key_of(exprs), p.mutator, p.error[1],
                          graph.sexp.serialize(graph.sexp.node_to_list(
                              p.node)) if p.node is not None else ''))

    s = graph.Search(argv, depth=depth if regime == 'depth' else None,
                     max_states=cap, on_proposal=on_proposal,
                     classify=classify,
                     history_check=150 if (regime, mode) == ('closure', 'inc')
                     else 0)
    try:
        common.reset_ids(0)
        s.run(graph.parse(text))
    except Exception as e:  # noqa
        # an exception escaping collect_information etc. is C04's business;
        # here it only ends this unit
        common.pcount(part, 'units_aborted_by_exception')
        part.setdefault('aborted', []).append((name, repr(e)[:200]))
    common.pcount(part, 'states', len(s.adj))
    common.pcount(part, 'transitions', s.n_transitions)
    common.pcount(part, 'units')
    part['max_depth'] = s.max_depth_seen
    part['label_pairs'] = s.label_pairs
    if s.capped:
        part['caps'].append(f'{name}/{regime}/{mode}: state cap {cap} hit')
    for state, label, node in s.self_loops:
        common.pviolation(
            part, f'no-op|{label[0]}|{node[:40]}', {
                'brief': f'no-op proposal: {label[0]} ({label[1]}) at node '
                         f'{node!r} leaves the input unchanged: {state!r}',
                'seed': text, 'state': state, 'argv': argv,
                'regime': regime})
    # KF-C03-7: states that exist only because EliminateVariable replaced a
    # variable by a term depending on it through a definition contain a
    # recursive define-fun; what happens from there on is that finding's
    if any('ev-through-definition' in ks for ks in s.kf_edges.values()):
        gone = s.drop_states_only_reachable_through('ev-through-definition')
        common.pcount(part, 'states_behind_a_known_finding_edge', gone)
        common.pviolation(part, f'cycle-known|ev-through-definition|{name}',
                          None, kf='ev-through-definition')
    clean = s.cycles(clean_only=True)
    if not clean:
        # KF-C03-1 is about ReplaceByVariable *together with* a substituting
        # mutator: the graph must also be acyclic when the substituting
        # mutators' edges are removed instead of ReplaceByVariable's
        clean = s.cycles_without(SUBSTITUTING, also=(
            'constants-inside-fp-constant', 'constants-at-fp-term',
            'ev-ddmin-group-simultaneous', 'ev-through-definition'))
    if not clean:
        # every cycle of the explored graph runs through an edge that only
        # exists because of a known finding
        for cyc in s.cycles():
            kinds = set()
            for (a, b), ks in s.kf_edges.items():
                if (a, b) not in s.clean_edges:
                    kinds |= ks
            for k in sorted(kinds):
                common.pviolation(part, f'cycle-known|{k}|{name}', None,
                                  kf=k)
            break
    for cyc in clean:
        muts = sorted(set(l[0] for _, l in cyc if l))
        common.pviolation(
            part, f'cycle|{"+".join(muts)}|{len(cyc)}', {
                'brief': f'mutation cycle of length {len(cyc)} through '
                         f'{muts}: ' + ' --> '.join(
                             f'{k!r} [{l[0] if l else "?"}]'
                             for k, l in cyc[:6]),
                'seed': text, 'cycle': [[k, list(l) if l else None]
                                        for k, l in cyc], 'argv': argv,
                'regime': regime})
    common.pcount(part, 'states_rechecked_with_fresh_mutator_instances',
                  s.history_checked)
    for state, extra, missing in s.history_mismatches:
        who = sorted(set(m for m, _ in extra + missing))
        common.pviolation(
            part, f'history-dependent|{"+".join(who)}|{name}', {
                'brief': f'proposals of {who} depend on what the mutator '
                         f'instances saw before: at {state!r} the long-lived '
                         f'instances additionally propose '
                         f'{[k for _, k in extra]!r} and lack '
                         f'{[k for _, k in missing]!r} compared with fresh '
                         'instances (the chain of accepted inputs is then '
                         'not a path of a fixed rewrite graph)',
                'seed': text, 'state': state, 'argv': argv,
                'regime': regime})
    for state, mut, stage, node in hangs:
        common.pviolation(
            part, f'hang|{mut}|{stage}', {
                'brief': f'{mut}.{stage} exceeded its work budget at node '
                         f'{node!r} of {state!r}',
                'seed': text, 'state': state, 'argv': argv,
                'regime': regime})
    if regime == 'closure' and not part['samples']:
        part['samples'].append({'seed': name, 'regime': regime,
                                'states': len(s.adj),
                                'transitions': s.n_transitions})
    return part


def plan(tier, seed=0):
    units = []
    depth = 3 if tier == 'thorough' else 2
    cap = 600 if tier == 'thorough' else 500
    for name, text in seeds.seeds(tier, seed):
        generated = '-gen' in name or '-not' in name
        units.append((name, text, 'depth', 'inc', depth,
                      2000))
        if tier == 'thorough' or not generated or name.endswith('0'):
            units.append((name, text, 'closure', 'inc', None, cap))
        if tier == 'thorough' or name.endswith('0') or '-' not in name:
            units.append((name, text, 'closure', 'dec', None, cap))
    units.sort(key=lambda u: -len(u[1]))
    return units


def main(tier):
    rep = common.Reporter(PROP, 'model_checking', tier)
    units = plan(rep.tier, rep.seed)
    parts = common.pmap(run_unit, units, init=_init)
    pairs = set()
    maxd = 0
    for p in parts:
        pairs |= p.pop('label_pairs', set())
        maxd = max(maxd, p.pop('max_depth', 0))
        for a in p.pop('aborted', []):
            rep.notes.append(a)
        rep.merge(p)
    # REAL conformance: every step the real program takes (bin/ddsmt -j 1,
    # real command) must be a transition of the graph as computed here
    from .. import conform
    sd = [x for x in seeds.seeds(rep.tier, rep.seed)
          if not x[0].startswith('typed')]
    sd = sd[rep.seed % 6::6] if rep.tier != 'thorough' else sd[::3]
    conform.graph_conformance(rep, sd, ('hierarchical', 'ddmin'))
    rep.set('mutator_pairs_on_consecutive_edges', len(pairs))
    rep.set('max_depth', maxd)
    rep.set('seeds', len(seeds.seeds(rep.tier, rep.seed)))
    rep.set('traces_validated_against_impl',
            rep.coverage.get('traces_validated_against_impl', 0))
    rep.set('evaluations', rep.coverage.get('transitions', 0))
    rep.set('distinct_nontrivial', rep.coverage.get('states', 0))
    rep.set('exhaustive', True)
    rep.set(
        'rule', 'rewrite graph from every seed: closure regime (all '
        'mutators except EraseNode, BinaryReduction, IntroduceFreshVariable; '
        'state cap) and depth-bounded regime (all mutators, depth 2 quick / '
        '3 thorough); transitions = real mutators + apply_simp + reduplicate '
        'after collect_information, hierarchical single proposals and ddmin '
        'group steps (real TaskGenerator); oracles: no self loop, no '
        'strongly connected component with more than one state, every '
        'filter/mutations/apply call within a count budget of 60*(n+10)^2; '
        'REAL conformance: real bin/ddsmt -j 1 runs (hierarchical and ddmin) '
        'on a sixth of the seeds (rotated by VERIF_SEED): every accepted step '
        'must be a transition of the graph computed from its predecessor')
    rep.assume('every sequence of accepted inputs of any run is a path of '
               'this graph (DESIGN 2.8)', 'seed family ddv/seeds.py',
               'state key = harness serialisation of the token tree')
    return rep.finish()


def replay(rec):
    _init()
    r = rec['record']
    print(r['brief'])
    part = run_unit(('replay', r['seed'], r['regime'],
                     r['argv'][-1], 3,
                     20000 if r['regime'] == 'depth' else 2000))
    # the last field of some signatures is the name of the seed
    want = rec['signature']
    if want.startswith('history-dependent|'):
        want = want.rsplit('|', 1)[0]
    sigs = [v[0] for v in part['violations']]
    again = any(x == want or x.rsplit('|', 1)[0] == want for x in sigs)
    print('found again:', again)
    return 1 if again else 0
