"""C08 - the reader tokenises SMT-LIB text as the standard prescribes.

Bounded-exhaustive enumeration: every sequence of <= L lexeme representatives
x every separator choice x every wrapper (nesting depth 0/1/2, head/tail
neighbours) x comment placement; oracle = the independent reference reader of
ddv.sexp.  See DESIGN.md section 3, C08.
"""
import itertools

from .. import common, sexp

PROP = 'C08'

ATOMS = [
    'a', 'a-b', '<=', ':kw', '12', '1.5', '#b01', '#xA', '"s"', '""',
    '"a""b"', '"a"""', '"a b"', '"("', '")"', '";"', '"|"', '"x\ny"', '"a\\"', '"\\"', '|q|',
    '|q r|', '|q\nr|', '|(|', '|)|', '|;|', '|"|', '||'
]
COMPOUND = ['()', '(a)', '(a b)', '((a))']
COMMENTS = [';c', ';', '; ( " |']
ITEMS = ATOMS + COMPOUND + COMMENTS

# reduced alphabet for the longest sequences of the quick tier
ITEMS_SMALL = [
    'a', '12', '"s"', '"a\\"', '"a""b"', '"("', '|q r|', '|;|', '()', '(a)', ';c', ';'
]

SEPS_FULL = [' ', '\t', '\n', '\r', '\r\n', '  ']
SEPS_SMALL = [' ', '\n', '\r']
AFTER_COMMENT = ['\n', '\r', '\r\n', '\n ']


def klass(item):
    if item.startswith(';'):
        return 'comment'
    if item.startswith('('):
        return 'list'
    if item.startswith('"'):
        return 'str'
    if item.startswith('|'):
        return 'qsym'
    return 'atom'


def sep_choices(x, y, seps):
    """Separators allowed between adjacent items x and y."""
    if x.startswith(';'):
        return AFTER_COMMENT
    res = list(seps)
    if x.endswith(')') and klass(x) == 'list':
        res.append('')
    elif y.startswith('(') and klass(y) == 'list':
        res.append('')
    elif y.startswith(';'):
        res.append('')
    return res


def wrappers(first, last):
    """(name, prefix, suffix) triples around a sequence."""
    lc = last.startswith(';')
    close_seps = ['\n', '\r', '\r\n'] if lc else ['', ' ']
    out = []
    for lead in ['', ' ', '\n']:
        for trail in (['', '\n', '\r', '\r\n'] if lc else ['', ' ', '\n', '\r']):
            out.append(('top', lead, trail))
    for s1 in ['', ' ']:
        for s2 in close_seps:
            out.append(('d1', '(' + s1, s2 + ')'))
            out.append(('d2', '((' + s1, s2 + '))'))
    for s2 in close_seps:
        out.append(('head', '(h ', s2 + ')'))
        out.append(('head2', '(h(', s2 + ') t)'))
    out.append(('tail', '(', ('\n' if lc else ' ') + 't)'))
    out.append(('tailc', '(', ('\n' if lc else '') + '(t))'))
    return out


def texts_for(seq, seps):
    """All texts for one item sequence."""
    sep_lists = [
        sep_choices(seq[i], seq[i + 1], seps) for i in range(len(seq) - 1)
    ]
    ws = wrappers(seq[0], seq[-1])
    for sp in itertools.product(*sep_lists):
        body = seq[0]
        for s, it in zip(sp, seq[1:]):
            body += s + it
        for name, pre, suf in ws:
            yield name, sp, pre + body + suf


def plan(tier):
    """List of work units (items alphabet, length, separators, first item)."""
    units = []
    if tier == 'thorough':
        for L in (1, 2):
            for f in ITEMS:
                units.append((ITEMS, L, SEPS_FULL, f))
        for f in ITEMS:
            units.append((ITEMS, 3, SEPS_FULL, f))
        for f in ITEMS_SMALL:
            units.append((ITEMS_SMALL, 4, SEPS_SMALL, f))
    else:
        for L in (1, 2):
            for f in ITEMS:
                units.append((ITEMS, L, SEPS_FULL, f))
        for f in ITEMS:
            units.append((ITEMS, 3, SEPS_SMALL, f))
    return units


def compare(text):
    """Return None if ddSMT's reader agrees with the reference reader, else
    a (kind, observed, expected) triple."""
    from ddsmt import nodeio
    exp = sexp.read(text)
    try:
        got = sexp.norm(sexp.node_to_list(list(nodeio.parse_smtlib(text))))
    except Exception as e:  # noqa
        return (f'exception:{type(e).__name__}', repr(e), exp)
    if got != exp:
        return ('differs', got, exp)
    return None


def _init():
    common.import_ddsmt()


def run_unit(unit):
    items, L, seps, first = unit
    part = common.part_result()
    distinct = set()
    n = 0
    for rest in itertools.product(items, repeat=L - 1):
        seq = (first, ) + rest
        for wname, sp, text in texts_for(seq, seps):
            n += 1
            r = compare(text)
            if n % 997 == 1:
                distinct.add(hash(text))
            if r is not None:
                kind, got, exp = r
                sig = '|'.join([
                    kind, wname, ','.join(klass(x) for x in seq),
                    ','.join(repr(s) for s in sp)
                ])
                common.pviolation(
                    part, sig, {
                        'brief': f'{kind} on {text!r}: got {got!r} '
                                 f'expected {exp!r}',
                        'text': text,
                        'observed': got,
                        'expected': exp
                    })
    common.pcount(part, 'evaluations', n)
    # non-trivial: sequences that contain a literal, quoted symbol, comment
    # or nested list (every sequence is distinct by construction)
    nt = 0
    for rest in itertools.product(items, repeat=L - 1):
        seq = (first, ) + rest
        if any(klass(x) != 'atom' for x in seq):
            nt += 1
    common.pcount(part, 'distinct_nontrivial', nt)
    common.pcount(part, 'sequences', len(items)**(L - 1))
    if first == items[min(3, len(items) - 1)] and L == 2:
        for wname, sp, text in itertools.islice(
                texts_for((first, items[-2]), seps), 3):
            part['samples'].append({'text': text, 'wrapper': wname})
    return part


def main(tier):
    rep = common.Reporter(PROP, 'exploration', tier)
    units = plan(rep.tier)
    parts = common.pmap(run_unit, units, init=_init)
    for p in parts:
        rep.merge(p)
    rep.set(
        'rule', 'all sequences of <= L lexeme representatives '
        f'({len(ITEMS)} items incl. comments and small lists) x all separator '
        'choices x wrappers (top level with lead/trail white space, depth 1, '
        'depth 2, with head / tail neighbour); distinct_nontrivial = number '
        'of distinct item sequences containing a string literal, quoted '
        'symbol, comment or nested list; oracle = independent reference '
        'reader (ddv/sexp.py)')
    rep.set('exhaustive', True)
    rep.set('bounds', {
        'units': len(units),
        'max_len': 4 if rep.tier == 'thorough' else 3,
        'items': len(ITEMS)
    })
    rep.assume(
        'reference tokenizer/reader ddv/sexp.py (self-tested)',
        'texts with unbalanced parentheses / unterminated literals and '
        'tokens directly adjacent to a following quote character are outside '
        'the statement and not generated')
    return rep.finish()


def replay(rec):
    _init()
    text = rec['record']['text']
    r = compare(text)
    print('text    :', repr(text))
    print('expected:', sexp.read(text))
    if r is None:
        print('observed: agrees with the reference reader')
        return 0
    print('observed:', r[0], r[1])
    return 1
