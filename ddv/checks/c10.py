"""C10 - runs exceeding the time or memory limit are rejected and never stall
ddSMT.

FAULT enumeration: the real checker.execute / check / do_golden_runs run
against a *virtual* subprocess, resource and clock module; every placement of
<= 1 (thorough 2) faults {never finishes, CPU-limit death, memory-limit death,
signal death} over the command invocations of a run is explored.  REAL: each
virtual answer is validated against the kernel with tiny limits.
DESIGN 3/C10.
"""
import math
import os
import signal
import subprocess
import sys
import time

from .. import common, explore, oracles, scenarios as S, sched, sexp

PROP = 'C10'
FAULTS = ['hang', 'cpu', 'mem', 'signal']


class TimeoutExpired(subprocess.TimeoutExpired):
    pass


class VPopen:

    def __init__(self, vs, args, **kw):
        self.vs = vs
        self.args = args
        self.pid = 40000 + len(vs.procs)
        self.returncode = None
        self.killed = False
        self.waited = False
        rt = vs.rt
        filename = args[-1]
        which = 'cc' if os.path.basename(args[0]).endswith('_cc') else 'main'
        with open(filename, 'rb') as f:
            data = f.read()
        try:
            self.toks = tuple(sexp.strip_comment(t) for t in
                              sexp.token_texts(data.decode('utf-8')))
        except sexp.LexError:
            self.toks = ('<unlexable>', )
        model = rt.scn['model'] if which == 'main' else rt.scn['cc_model']
        self.res = sched.run_model(model, sched.norm_tokens(self.toks), rt)
        self.which = which
        self.is_golden = (filename == vs.infile)
        vs.procs.append(self)
        self.index = len(vs.procs)
        # which fault, if any, hits this invocation?
        self.fault = None
        plan = rt.scn.get('golden_fault')
        if self.is_golden:
            if plan and which == 'main':
                self.fault = plan
        else:
            c = rt.choose(('fault', self.index), 1 + len(FAULTS), 0, 'fault')
            if c:
                self.fault = FAULTS[c - 1]
        self.runtime = rt.scn.get('runtime', 0.25)
        if which == 'cc':
            self.runtime = rt.scn.get('runtime_cc', self.runtime)
        rt.log.append(('proc', self.index, which, self.toks, self.fault,
                       self.is_golden, rt.worker))

    def communicate(self, timeout=None):
        vs = self.vs
        if self.killed:
            # the process is dead, but communicate() waits for the pipes to
            # close: a wrapper command whose child sleeps on keeps them open
            if self.fault == 'hang':
                vs.clock.advance(1000.0)
            self.returncode = -signal.SIGKILL
            return b'', b''
        self.timeout_used = timeout
        if self.fault == 'hang' or (timeout is not None
                                    and self.runtime > timeout):
            vs.clock.advance(timeout if timeout is not None else 1e9)
            raise TimeoutExpired(self.args, timeout)
        vs.clock.advance(self.runtime)
        ex, out, err = self.res
        if self.fault == 'cpu':
            self.returncode = -signal.SIGXCPU
            return out[:1].encode(), b''
        if self.fault == 'mem':
            self.returncode = 1 if ex != 1 else 2
            return b'', b'MemoryError\n'
        if self.fault == 'signal':
            self.returncode = -signal.SIGSEGV
            return out[:1].encode(), err.encode()
        self.returncode = ex
        return out.encode(), err.encode()

    def kill(self):
        self.killed = True

    def wait(self, timeout=None):
        self.waited = True
        if self.killed and self.returncode is None:
            self.returncode = -signal.SIGKILL
        return self.returncode

    def poll(self):
        return self.returncode


class VSub:
    PIPE = subprocess.PIPE
    TimeoutExpired = subprocess.TimeoutExpired

    def __init__(self, rt, infile, clock):
        self.rt = rt
        self.infile = infile
        self.clock = clock
        self.procs = []

    def Popen(self, args, **kw):
        return VPopen(self, args, **kw)


class VClock:

    def __init__(self):
        self.now = 1000.0

    def time(self):
        return self.now

    def advance(self, dt):
        self.now += dt

    def __getattr__(self, name):
        return getattr(time, name)


class VRes:
    RLIMIT_AS = 9
    RLIMIT_CPU = 0
    RLIM_INFINITY = -1

    def __init__(self):
        self.calls = []

    def prlimit(self, pid, res, limits):
        self.calls.append((pid, res, limits))

    def setrlimit(self, res, limits):
        self.calls.append((None, res, limits))


def run_virtual(scn, ch):
    common.import_ddsmt()
    sched.install()
    from ddsmt import checker
    holder = {}

    def before_main(rt):
        clock = VClock()
        vs = VSub(rt, os.path.join(sched.workdir(),
                                   'in' + scn.get('ext', '.smt2')), clock)
        vr = VRes()
        holder.update(vs=vs, vr=vr, clock=clock)
        checker.subprocess = vs
        checker.resource = vr
        checker.time = clock
        checker.execute = sched._ORIG['execute']

    saved = checker.execute
    try:
        x = sched.run_once(scn, ch, before_main=before_main)
    finally:
        checker.execute = saved
        checker.subprocess = subprocess
        import resource
        checker.resource = resource
        checker.time = time
    x.vs, x.vr, x.clock = holder['vs'], holder['vr'], holder['clock']
    return x


def judge(part, scn, x, ch):
    common.pcount(part, 'evaluations')
    vs, vr = x.vs, x.vr
    a = scn.get('argv', [])

    def val(flag, conv=float):
        return conv(a[a.index(flag) + 1]) if flag in a else None

    def viol(kind, detail):
        rec = {'brief': f'{kind} in scenario {scn["name"]} (argv '
                        f'{scn["argv"]}, faults '
                        f'{[(p.index, p.fault) for p in vs.procs if p.fault]}'
                        f'): {detail}', 'scenario': scn,
               'choices': [list(v) for v in ch.vector()]}
        common.pviolation(part, f'{kind}|{scn["name"]}', rec)

    faulty = [p for p in vs.procs if p.fault and not p.is_golden]
    if faulty:
        common.pcount(part, 'distinct_nontrivial')
        common.pcount(part, 'executions_with_faults')
    gfault = scn.get('golden_fault')
    timeout = val('--timeout')
    memout = val('--memout', int)
    golden = [p for p in vs.procs if p.is_golden and p.which == 'main']
    # golden lacking a match string: status 1, nothing else run
    if scn.get('expect_golden_reject'):
        non_golden = [p for p in vs.procs if not p.is_golden]
        if x.crash is not None:
            viol('C10|golden-reject-crashes',
                 f'golden run lacks the match string: {x.crash[0]}: '
                 f'{x.crash[1]}')
        elif x.rc != 1 or non_golden or x.out_bytes is not None:
            viol('C10|golden-without-match-string-not-rejected',
                 f'status {x.rc}, {len(non_golden)} candidate executions, '
                 f'output file {"exists" if x.out_bytes else "absent"}')
        return
    if x.crash is not None:
        viol('C10|run-aborted', f'{x.crash[0]}: {x.crash[1]}')
        return
    if x.rc != 0:
        viol('C10|run-did-not-complete', f'main() returned {x.rc}')
    # derived timeout
    eff_timeout = timeout
    if timeout is None and golden:
        eff_timeout = round((golden[0].runtime + 1) * 1.5, 2)
    for p in vs.procs:
        want = eff_timeout
        if p.which == 'cc':
            tcc = val('--timeout-cc')
            want = tcc if tcc is not None else (
                round((scn.get('runtime_cc', 0.25) + 1) * 1.5, 2)
                if not p.is_golden else None)
        used = getattr(p, 'timeout_used', 'n/a')
        if p.is_golden and timeout is None and p.which == 'main':
            continue
        if p.is_golden and p.which == 'cc' and val('--timeout-cc') is None:
            continue
        if used != 'n/a' and want is not None and used != want:
            viol('C10|wrong-time-limit',
                 f'{p.which} invocation #{p.index} ran with a time limit of '
                 f'{used} s, configured/derived limit is {want} s')
            break
    # limits on the child
    for p in vs.procs:
        lims = [(r, l) for pid, r, l in vr.calls if pid == p.pid]
        used = getattr(p, 'timeout_used', None)
        if used is not None:
            cpu = [l for r, l in lims if r == VRes.RLIMIT_CPU]
            if not cpu or cpu[0][0] != math.ceil(used):
                viol('C10|cpu-limit-not-set',
                     f'invocation #{p.index}: RLIMIT_CPU calls {cpu}, '
                     f'expected {math.ceil(used)}')
                break
        if memout:
            mem = [l for r, l in lims if r == VRes.RLIMIT_AS]
            if not mem or mem[0][0] != memout * 1024 * 1024:
                viol('C10|memory-limit-not-set',
                     f'invocation #{p.index}: RLIMIT_AS calls {mem}, '
                     f'expected {memout * 1024 * 1024}')
                break
    # every timed-out process was killed
    for p in vs.procs:
        if (p.fault == 'hang' or p.returncode is None) and \
                getattr(p, 'timeout_used', None) is not None and \
                p.returncode is None and not p.killed:
            viol('C10|timed-out-process-not-killed',
                 f'invocation #{p.index} timed out and was not killed')
            break
    # a faulty candidate is never adopted (golden is a normal run here)
    writes = [e[1] for e in x.log if e[0] == 'write']
    g = golden[0] if golden else None
    for p in faulty:
        same_as_golden = gfault == p.fault
        if p.toks in writes and not same_as_golden:
            # adopted through another, non-faulty invocation on the same
            # candidate?  (re-tests of an unchanged input)
            ok_elsewhere = any(q is not p and not q.fault and
                               q.toks == p.toks and not q.is_golden
                               for q in vs.procs)
            if not ok_elsewhere:
                viol('C10|faulty-candidate-adopted',
                     f'candidate of invocation #{p.index} ({p.fault}) was '
                     f'written to the output file')
                break
    # time bound: tests x limit + golden
    if eff_timeout is not None:
        elapsed = x.clock.now - 1000.0
        tcc = val('--timeout-cc') or eff_timeout
        bound = sum(max(eff_timeout, tcc) for p in vs.procs) + 1.0
        if elapsed > bound:
            viol('C10|time-bound-exceeded',
                 f'virtual elapsed time {elapsed:.1f} s exceeds '
                 f'{len(vs.procs)} tests x limit = {bound:.1f} s')
    # a slow-but-legal cross-check run must not be rejected
    if scn.get('expect_same_as'):
        pass


def scenarios(tier):
    scn = []
    b = 2 if tier == 'thorough' else 1
    fam = [('bool5', 'and+b', 'core'), ('asserts8', '3asserts', 'erase'),
           ('consts', '4gt', 'erase'), ('int', '+', 'core')]
    for inp, mname, ms in fam:
        model = dict(S.MODELS[inp])[mname]
        for strat in S.STRATEGIES:
            for j in (1, 2):
                for opts in (['--timeout', '5'], [],
                             ['--timeout', '3', '--memout', '64'],
                             ['--memout', '32']):
                    if opts != ['--timeout', '5'] and (j == 2 or
                                                       strat == 'hybrid'):
                        continue
                    scn.append(S.mk(
                        f'{inp}/{strat}/j{j}/{"".join(opts)}', inp, model,
                        strat, j, S.MUTATOR_SETS[ms] + opts, budget=b))
    # match strings: a timed-out candidate has no output to search
    scn.append(S.mk('bool5/streams/match-out', 'bool5', S.STREAMS['bool5'],
                    'hybrid', 1, S.MUTATOR_SETS['core'] +
                    ['--timeout', '5', '--match-out', 'A', '--match-err',
                     'A'], budget=1))
    # cross check with its own, larger time limit and slow (legal) runs
    scn.append(S.mk('bool5/cc/slow-cc', 'bool5', ('has', ['and']), 'hybrid',
                    1, S.MUTATOR_SETS['core'] + ['--timeout', '2',
                                                 '--timeout-cc', '40'],
                    cc_model=('has', ['b']), runtime_cc=10.0, budget=0,
                    check_same_as_fast=True))
    scn.append(S.mk('bool5/cc/derived', 'bool5', ('has', ['and']), 'ddmin',
                    1, S.MUTATOR_SETS['core'], cc_model=('has', ['b']),
                    runtime_cc=3.0, budget=1))
    # faulty golden runs
    for gf in FAULTS:
        scn.append(S.mk(f'bool5/golden-{gf}', 'bool5', ('has', ['and']),
                        'ddmin', 1, S.MUTATOR_SETS['erase'] +
                        ['--timeout', '5'], golden_fault=gf, budget=1))
    # golden run without the configured match string
    for opt in (['--match-out', 'zzz'], ['--match-err', 'zzz'],
                ['--match-out', 'A', '--match-err', 'zzz']):
        scn.append(S.mk(f'bool5/golden-lacks/{"".join(opt)}', 'bool5',
                        S.STREAMS['bool5'], 'hybrid', 1,
                        ['--timeout', '5'] + opt, expect_golden_reject=True,
                        budget=0))
    for opt in (['--match-out', 'A'], ['--match-err', 'A']):
        scn.append(S.mk(f'bool5/golden-hangs/{"".join(opt)}', 'bool5',
                        S.STREAMS['bool5'], 'hybrid', 1,
                        ['--timeout', '5'] + opt, golden_fault='hang',
                        expect_golden_reject=True, budget=0))
    return scn


def _init():
    common.import_ddsmt()
    sched.install()


def run_unit(i_scn):
    scn = i_scn
    part = common.part_result()
    budgets = {'fault': scn.get('budget', 0), 'sched': 0, 'accept': 0}

    def on_exec(ch, x):
        judge(part, scn, x, ch)

    n, capped = explore.explore(lambda ch: run_virtual(scn, ch), budgets,
                                on_exec, max_execs=20000)
    if capped:
        part['caps'].append(f'{scn["name"]} capped at {n}')
    if scn.get('check_same_as_fast'):
        # the same scenario with a fast cross check must give the same output
        fast = dict(scn)
        fast['runtime_cc'] = 0.25
        x1 = run_virtual(scn, explore.Chooser([]))
        x2 = run_virtual(fast, explore.Chooser([]))
        common.pcount(part, 'evaluations', 2)
        if x1.out_bytes != x2.out_bytes:
            common.pviolation(
                part, f'C10|legal-slow-cross-check-rejected|{scn["name"]}', {
                    'brief': f'cross-check runs that take 10 s with '
                             f'--timeout-cc 40 (and --timeout 2) change the '
                             f'result: {x1.out_bytes!r} vs {x2.out_bytes!r}',
                    'scenario': scn})
    if len(part['samples']) < 1:
        part['samples'].append({'scenario': scn['name'],
                                'argv': scn['argv'], 'executions': n})
    return part


# --------------------------------------------------------------------------
# REAL validation of the virtual answers


def real_part(rep):
    common.import_ddsmt()
    from ddsmt import checker
    real_execute = sched._ORIG.get('execute', checker.execute)
    with common.scratch_dir('ddv-c10-') as d:
        scripts = {
            'hang': '#!/bin/sh\nsleep 40\n',
            'spin': '#!/venv/bin/python -S\nwhile True:\n    pass\n',
            'alloc': '#!/venv/bin/python -S\nx = []\nwhile True:\n'
                     '    x.append(bytearray(1 << 20))\n',
            'segv': '#!/bin/sh\nkill -SEGV $$\n',
            'ok': '#!/bin/sh\necho fine\nexit 3\n',
        }
        for n, body in scripts.items():
            p = os.path.join(d, n)
            with open(p, 'w') as f:
                f.write(body)
            os.chmod(p, 0o755)
        dummy = os.path.join(d, 'in.smt2')
        open(dummy, 'w').write('(check-sat)\n')
        common.set_args(['ddsmt', '--memout', '256', dummy, dummy, '/bin/true'])
        checks = [
            ('ok', 5.0, lambda r: r.exit == 3 and r.out == 'fine\n'),
            ('hang', 0.5, lambda r: r.exit is None and r.out is None
             and r.err is None),
            ('spin', 1.0, lambda r: (r.exit is None and r.out is None) or
             (r.exit is not None and r.exit < 0)),
            ('alloc', 20.0, lambda r: r.exit not in (0, None)),
            ('segv', 5.0, lambda r: r.exit == -signal.SIGSEGV),
        ]
        for name, to, ok in checks:
            before = set(_children())
            t0 = time.time()
            r = real_execute([os.path.join(d, name)], dummy, to)
            dt = time.time() - t0
            rep.count('real_runs')
            rep.count('evaluations')
            if not ok(r):
                rep.violation(f'C10|real-answer|{name}', {
                    'brief': f'real checker.execute on the {name} command '
                             f'(limit {to} s) returned {r}'})
            if dt > to + 15:
                rep.violation(f'C10|real-stall|{name}', {
                    'brief': f'real checker.execute on the {name} command '
                             f'took {dt:.1f} s with a limit of {to} s'})
            time.sleep(0.3)
            left = [c for c in _children() if c not in before and
                    _alive(c)]
            if left:
                rep.violation(f'C10|real-child-left|{name}', {
                    'brief': f'command process still running after '
                             f'checker.execute returned for {name}: {left}'})
        # one full real run per strategy with a hanging candidate
        infile = os.path.join(d, 'real.smt2')
        open(infile, 'w').write(S.ASSERTS8)
        cmd = os.path.join(d, 'cmd.sh')
        with open(cmd, 'w') as f:
            f.write('#!/bin/sh\nc=$(grep -c assert "$1")\n'
                    'if [ "$c" = "5" ]; then sleep 40; fi\n'
                    'if [ "$c" -ge 3 ]; then exit 1; fi\nexit 0\n')
        os.chmod(cmd, 0o755)
        procs = []
        for strat in ('ddmin', 'hierarchical'):
            out = os.path.join(d, f'out-{strat}.smt2')
            tmp = os.path.join(d, f'tmp-{strat}')
            os.mkdir(tmp)
            procs.append((strat, out, subprocess.Popen(
                [sys.executable, os.path.join(common.REPO, 'bin', 'ddsmt'),
                 '--strategy', strat, '-j', '1', '--timeout', '0.5',
                 '--disable-all', '--erase-node', infile, out, cmd],
                cwd=common.REPO, env=dict(os.environ, TMPDIR=tmp),
                stdout=subprocess.PIPE, stderr=subprocess.PIPE)))
        for strat, out, p in procs:
            try:
                p.communicate(timeout=300)
            except subprocess.TimeoutExpired:
                p.kill()
                rep.violation(f'C10|real-run-stalled|{strat}', {
                    'brief': f'bin/ddsmt --strategy {strat} with a hanging '
                             f'candidate did not finish within 300 s'})
                continue
            rep.count('real_runs')
            rep.count('evaluations')
            data = open(out).read() if os.path.exists(out) else ''
            if p.returncode != 0 or data.count('assert') == 5:
                rep.violation(f'C10|real-run|{strat}', {
                    'brief': f'bin/ddsmt --strategy {strat} with a hanging '
                             f'candidate: status {p.returncode}, output '
                             f'{data!r}'})


def _children():
    me = os.getpid()
    out = []
    for pid in os.listdir('/proc'):
        if pid.isdigit():
            try:
                with open(f'/proc/{pid}/stat') as f:
                    parts = f.read().split()
                if int(parts[3]) == me:
                    out.append(int(pid))
            except (OSError, IndexError, ValueError):
                pass
    return out


def _alive(pid):
    try:
        with open(f'/proc/{pid}/stat') as f:
            return f.read().split()[2] != 'Z'
    except OSError:
        return False


def main(tier):
    rep = common.Reporter(PROP, 'fault_enumeration', tier)
    scns = scenarios(rep.tier)
    parts = common.pmap(run_unit, scns, init=_init)
    for p in parts:
        rep.merge(p)
    real_part(rep)
    rep.set('scenarios', len(scns))
    rep.set(
        'rule', f'{len(scns)} scenarios (3 strategies, -j 1/2, explicit and '
        'derived time limit, --memout, match strings, cross check with its '
        'own limit, faulty golden runs): every placement of <= 1 (thorough '
        '2) faults {never finishes, CPU-limit death, memory-limit death, '
        'signal death} over the command invocations, through the real '
        'checker.execute / check / do_golden_runs with a virtual subprocess '
        '/ resource / clock; 7 real runs validate the virtual answers '
        'against the kernel. distinct_nontrivial = executions with at least '
        'one fault')
    rep.set('exhaustive', True)
    rep.assume('virtual Popen/resource/clock (ddv/checks/c10.py): a timed '
               'out communicate() raises TimeoutExpired and advances the '
               'clock by the limit; CPU / memory / signal deaths return the '
               'exit codes validated by the REAL runs',
               'REAL oracles are load-insensitive (generous margins)')
    return rep.finish()


def replay(rec):
    _init()
    from .. import schedcheck
    r = rec['record']
    print(r['brief'])
    scn = r['scenario']
    scn['model'] = schedcheck.tuplify(scn['model'])
    if scn.get('cc_model'):
        scn['cc_model'] = schedcheck.tuplify(scn['cc_model'])
    if 'choices' not in r:
        return 1
    ch = explore.Chooser([(schedcheck.tuplify(t), c) for t, c in r['choices']])
    x = run_virtual(scn, ch)
    part = common.part_result()
    judge(part, scn, x, ch)
    for v in part['violations'][:5]:
        print('FAIL', v[1]['brief'][:300])
    return 1 if part['violations'] else 0
