"""C17 - rewrites documented as identities preserve sort and value.

ENUM: for every mutator the property lists, all well-sorted instances within
the bounds the filter accepts; replacement must type-check to the same sort
(ddv/typed.py) and evaluate to the same value under every assignment
(ddv/evalsmt.py).  DESIGN 3/C17.
"""
import itertools
from fractions import Fraction

from .. import common, evalsmt, sexp, typed

PROP = 'C17'
MUTATORS = [
    'BVNormalizeConstants', 'BVEvalExtend', 'BVExtractConstants',
    'BVExtractZeroExtend', 'BvMergeExtend', 'BVMergeReducedBW',
    'BoolDoubleNegation', 'BoolDeMorgan', 'BoolEliminateFalseEquality',
    'BoolXOREliminateBinary', 'BoolNegateQuantifier',
    'BoolEliminateImplication', 'ArithmeticNegateRelation',
    'BVDoubleNegation', 'BVReflexiveNand', 'BVIteToBVComp', 'BVElimBVComp',
    'InlineDefinedFuns', 'LetSubstitution', 'RemoveDatatypeIdentity',
    'FPShortSort'
]
WIDTHS = (1, 2, 3, 4, 8)


def _init():
    common.import_ddsmt()


def bvsort(w):
    return ('BV', w)


def bv_consts(w, full=True):
    """Constant trees of width w in every notation."""
    if w <= 3:
        vals = range(1 << w)
    else:
        vals = sorted({0, 1, 2, (1 << w) - 1, 1 << (w - 1), (1 << (w - 1)) - 1,
                       5 % (1 << w), 10 % (1 << w)})
    out = []
    for v in vals:
        out.append('#b' + format(v, f'0{w}b'))
        out.append(['_', f'bv{v}', str(w)])
        if w % 4 == 0:
            out.append('#x' + format(v, f'0{w // 4}x'))
    return out


def domain(sort):
    if sort == 'Bool':
        return [False, True]
    if sort == 'Int':
        return [-2, -1, 0, 1, 2, 7]
    if sort == 'Real':
        return [Fraction(-1), Fraction(0), Fraction(1, 2), Fraction(5, 2)]
    if isinstance(sort, tuple) and sort[0] == 'BV':
        w = sort[1]
        if w <= 4:
            return [evalsmt.bv(v, w) for v in range(1 << w)]
        return [evalsmt.bv(v, w) for v in
                sorted({0, 1, 2, 127, 128, 255, 0x55, 0xAA, 0x0F})]
    if sort == typed.LST:
        return [('dt', 'nil'), ('dt', 'cons', 1, ('dt', 'nil')),
                ('dt', 'cons', 2, ('dt', 'cons', 0, ('dt', 'nil')))]
    if sort == typed.TAG:
        return [('dt', 'ta'), ('dt', 'tc')]
    if sort == typed.SHAPE:
        return [('dt', 'dot'), ('dt', 'circle', 3),
                ('dt', 'square', 2, ('dt', 'ta'))]
    raise KeyError(sort)


DTS = {'nil': [], 'cons': ['hd', 'tl'], 'dot': [], 'blob': [],
       'circle': ['rad'], 'square': ['side', 'tag'], 'ta': [], 'tc': [],
       'tb': ['inner', 'cnt']}
DT_DECLS = [
    ['declare-datatype', 'Lst', [['nil'], ['cons', ['hd', 'Int'],
                                           ['tl', 'Lst']]]],
    ['declare-datatypes', [['Shape', '0'], ['Tag', '0']],
     [[['dot'], ['circle', ['rad', 'Int']],
       ['square', ['side', 'Int'], ['tag', 'Tag']], ['blob']],
      [['ta'], ['tb', ['inner', 'Shape'], ['cnt', 'Int']], ['tc']]]],
]
QDOM = {'Bool': [False, True],
        '_ BitVec 1': [evalsmt.bv(0, 1), evalsmt.bv(1, 1)],
        '_ BitVec 2': [evalsmt.bv(v, 2) for v in range(4)],
        'Int': [-1, 0, 1, 2]}


class Case:
    """One instance: a script, the path of the node the mutator is applied
    to, the sorts of free symbols, defined functions."""

    def __init__(self, mutator, script, path, env, funs=None, kind='term',
                 note=''):
        self.mutator = mutator
        self.script = script
        self.path = path
        self.env = env
        self.funs = funs or {}
        self.kind = kind
        self.note = note


def decl(name, sort):
    return ['declare-const', name, typed.sort_text(sort)]


def term_case(mut, term, env, funs=None, extra_cmds=(), note=''):
    cmds = [decl(n, s) for n, s in env.items()] + list(extra_cmds)
    try:
        s = typed.check(term, env, {k: v[2] for k, v in (funs or {}).items()})
    except typed.SortError:
        return None
    wrapper = ['assert', term] if s == 'Bool' else ['assert', ['=', term,
                                                               term]]
    path = (len(cmds), 1) if s == 'Bool' else (len(cmds), 1, 1)
    if note == 'let':
        path = path + (1, )
    return Case(mut, cmds + [wrapper], path, env, funs, 'term', note)


# --------------------------------------------------------------------------
# instance families


def instances(tier):
    thorough = tier == 'thorough'
    boolpool = ['p1', 'p2', 'true', 'false', ['and', 'p1', 'p2'],
                ['not', 'p1']]
    benv = {'p1': 'Bool', 'p2': 'Bool'}
    intpool = ['n1', 'n2', '0', '1', '7', ['+', 'n1', '1']]
    ienv = {'n1': 'Int', 'n2': 'Int'}
    # --- constants
    for w in WIDTHS:
        for c in bv_consts(w):
            if isinstance(c, str):
                yield term_case('BVNormalizeConstants', c, {})
            for k in range(0, 4):
                for op in ('zero_extend', 'sign_extend'):
                    yield term_case('BVEvalExtend', [['_', op, str(k)], c],
                                    {})
            for i in range(w):
                for j in range(i + 1):
                    if w > 4 and (i, j) not in ((7, 0), (7, 7), (0, 0), (3, 0),
                                                (7, 4), (5, 2)):
                        continue
                    yield term_case('BVExtractConstants',
                                    [['_', 'extract', str(i), str(j)], c], {})
    # --- extract of zero_extend, merging of extensions
    for w in (1, 2, 3, 4):
        env = {'x': bvsort(w), 'y': bvsort(w)}
        xs = ['x', 'y', ['bvadd', 'x', 'y'], ['bvnot', 'x']] + bv_consts(w)[:6]
        for k in (1, 2, 3):
            for i in range(w + k):
                for j in range(i + 1):
                    for x in xs[:4 if not thorough else 8]:
                        yield term_case(
                            'BVExtractZeroExtend',
                            [['_', 'extract', str(i), str(j)],
                             [['_', 'zero_extend', str(k)], x]], env)
        for op in ('zero_extend', 'sign_extend'):
            for a, b in itertools.product(range(0, 3), repeat=2):
                for x in xs:
                    yield term_case('BvMergeExtend',
                                    [['_', op, str(a)], [['_', op, str(b)],
                                                         x]], env)
                    yield term_case(
                        'BvMergeExtend',
                        [['_', op, str(a)],
                         [['_', op, str(b)], [['_', op, '1'], x]]], env)
            # mixed nesting must not be merged into one
            yield term_case('BvMergeExtend',
                            [['_', 'zero_extend', '1'],
                             [['_', 'zero_extend', '2'],
                              [['_', 'sign_extend', '1'], 'x']]], env)
            yield term_case('BvMergeExtend',
                            [['_', 'sign_extend', '1'],
                             [['_', 'sign_extend', '2'],
                              [['_', 'zero_extend', '1'], 'x']]], env)
        for x in xs:
            yield term_case('BVDoubleNegation', ['bvnot', ['bvnot', x]], env)
            yield term_case('BVDoubleNegation', ['bvneg', ['bvneg', x]], env)
            yield term_case('BVReflexiveNand', ['bvnand', x, x], env)
            # near misses: whatever is proposed for them must still be an
            # identity
            yield term_case('BVDoubleNegation', ['bvnot', ['bvneg', x]], env)
            yield term_case('BVDoubleNegation', ['bvneg', ['bvnot', x]], env)
            yield term_case('BVReflexiveNand', ['bvnand', x, 'y'], env)
            yield term_case('BVReflexiveNand', ['bvnand', x, x, x], env)
            for y in xs:
                for one in bv_consts(1):
                    for zero in bv_consts(1):
                        yield term_case('BVIteToBVComp',
                                        ['ite', ['=', x, y], one, zero], env)
                for c1 in bv_consts(1):
                    yield term_case('BVElimBVComp',
                                    ['=', c1, ['bvcomp', x, y]], env)
                    if thorough:
                        yield term_case('BVElimBVComp',
                                        ['=', c1, ['bvcomp', x, y],
                                         ['bvcomp', y, x]], env)
    # --- BVMergeReducedBW: top-level rewrite, defined symbols keep values
    for mm, n, m in itertools.product((1, 2, 3), (1, 2), (1, 2, 4)):
        script = [
            ['declare-const', '__w', ['_', 'BitVec', str(mm)]],
            ['define-fun', '_w', [], ['_', 'BitVec', str(mm + n)],
             [['_', 'zero_extend', str(n)], '__w']],
            ['define-fun', 'w', [], ['_', 'BitVec', str(mm + n + m)],
             [['_', 'zero_extend', str(m)], '_w']],
            ['assert', ['=', 'w', 'w']],
        ]
        yield Case('BVMergeReducedBW', script, (2, ), {'__w': bvsort(mm)},
                   kind='define-fun')
    # --- boolean
    for a in boolpool:
        yield term_case('BoolDoubleNegation', ['not', ['not', a]], benv)
        yield term_case('BoolDoubleNegation', ['not', ['not', a, a]], benv) \
            if False else None
        yield term_case('BoolDeMorgan', ['not', ['xor', a, 'p1']], benv)
        yield term_case('BoolXOREliminateBinary', ['xor', a, 'p1', 'p2'],
                        benv)
        yield term_case('BoolEliminateFalseEquality', ['=', 'false', a], benv)
        yield term_case('BoolEliminateFalseEquality', ['=', a, 'false'], benv)
        for b in boolpool:
            for op in ('and', 'or'):
                yield term_case('BoolDeMorgan', ['not', [op, a, b]], benv)
                yield term_case('BoolDeMorgan', ['not', [op, a, b, 'p1']],
                                benv)
            yield term_case('BoolDeMorgan', ['not', ['and', a]], benv)
            for c in boolpool:
                yield term_case('BoolDeMorgan', ['not', ['or', a, b, c]],
                                benv)
                yield term_case('BoolDeMorgan', ['not', ['and', a, b, c]],
                                benv)
            yield term_case('BoolXOREliminateBinary', ['xor', a, b], benv)
            yield term_case('BoolEliminateImplication', ['=>', a, b], benv)
            yield term_case('BoolEliminateFalseEquality',
                            ['=', a, 'false', b], benv)
    for q, nq in (('exists', 'forall'), ('forall', 'exists')):
        for s in ('Bool', ['_', 'BitVec', '2']):
            for body in (['or', 'x', 'p1'], ['and', ['not', 'x'], 'p1'],
                         'p1') if s == 'Bool' else (
                             ['=', 'x', 'v'], ['bvult', 'x', 'v']):
                env = dict(benv)
                env['v'] = bvsort(2)
                yield term_case('BoolNegateQuantifier',
                                ['not', [q, [['x', s]], body]], env)
        yield term_case('BoolNegateQuantifier',
                        ['not', [q, [['x', 'Bool'], ['y', 'Bool']],
                                 ['xor', 'x', 'y', 'p1']]], benv)
    # --- arithmetic relations (binary)
    for rel in ('=', '<', '>', '>=', '<=', 'distinct'):
        for a in intpool:
            for b in intpool:
                yield term_case('ArithmeticNegateRelation',
                                ['not', [rel, a, b]], ienv)
    renv = {'r1': 'Real', 'r2': 'Real'}
    realpool = ['r1', 'r2', '0.0', '2.5', ['+', 'r1', '1.5'],
                ['/', 'r1', '2.0']]
    for rel in ('=', '<', '>', '>=', '<=', 'distinct'):
        for a in realpool:
            for b in realpool:
                yield term_case('ArithmeticNegateRelation',
                                ['not', [rel, a, b]], renv)
    for rel in ('=', 'distinct'):
        for a, b in itertools.product(boolpool[:4], repeat=2):
            yield term_case('ArithmeticNegateRelation', ['not', [rel, a, b]],
                            benv)
    # --- inlining of defined functions
    bodies = [['-', 'a', 'b'], ['+', 'a', ['*', 'b', '2']], 'a',
              ['-', 'b', 'a'], ['+', ['-', 'a', 'b'], ['-', 'b', 'a']]]
    actuals = ['a', 'b', 'n1', '3', ['+', 'b', '1'], ['-', 'a', 'b'],
               ['h', 'b']]
    genv = {'a': 'Int', 'b': 'Int', 'n1': 'Int'}
    for body in bodies:
        for A, B in itertools.product(actuals, repeat=2):
            funs = {'f': (['a', 'b'], body, (['Int', 'Int'], 'Int')),
                    'h': (['b'], ['*', 'b', '2'], (['Int'], 'Int'))}
            extra = [['define-fun', 'h', [['b', 'Int']], 'Int',
                      ['*', 'b', '2']],
                     ['define-fun', 'f', [['a', 'Int'], ['b', 'Int']], 'Int',
                      body]]
            yield term_case('InlineDefinedFuns', ['f', A, B], genv, funs,
                            extra)
    bodies3 = [['-', ['+', 'a', 'b'], 'c'], ['ite', ['<', 'a', 'b'], 'c',
                                            'a'], ['*', 'c', ['-', 'b', 'a']]]
    act3 = ['a', 'b', 'c', ['+', 'c', 'a'], '2']
    genv3 = {'a': 'Int', 'b': 'Int', 'c': 'Int'}
    for body in bodies3:
        for A, B, C in itertools.product(act3, repeat=3):
            funs = {'f3': (['a', 'b', 'c'], body,
                           (['Int', 'Int', 'Int'], 'Int'))}
            extra = [['define-fun', 'f3', [['a', 'Int'], ['b', 'Int'],
                                           ['c', 'Int']], 'Int', body]]
            yield term_case('InlineDefinedFuns', ['f3', A, B, C], genv3,
                            funs, extra)
            # call nested in a call: only the outer node is inlined
            yield term_case('InlineDefinedFuns',
                            ['f3', ['f3', A, B, C], B, A], genv3, funs, extra)
    for body in (['+', 'n1', '1'], 'n1', ['h', 'a']):
        funs = {'c': ([], body, ([], 'Int')),
                'h': (['b'], ['*', 'b', '2'], (['Int'], 'Int'))}
        extra = [['define-fun', 'h', [['b', 'Int']], 'Int', ['*', 'b', '2']],
                 ['define-fun', 'c', [], 'Int', body]]
        c = term_case('InlineDefinedFuns', ['+', 'c', '1'], genv, funs, extra)
        c.path = c.path + (1, )
        yield c
    # --- let substitution (parallel bindings, names of outer symbols)
    lets_terms = ['a', 'b', 'n1', '1', ['+', 'a', '1'], ['-', 'b', 'a']]
    lbodies = [['-', 'x', 'y'], ['+', 'x', 'x'], ['-', 'a', 'x'],
               ['+', 'x', ['let', [['x', '2']], ['*', 'x', 'y']]],
               ['let', [['y', ['+', 'x', '1']]], ['-', 'y', 'x']]]
    for t1, t2 in itertools.product(lets_terms, repeat=2):
        for body in lbodies:
            yield term_case('LetSubstitution',
                            ['>', ['let', [['x', t1], ['y', t2]], body],
                             '0'], genv, note='let')
    for t1, t2, t3 in itertools.product(['a', 'n1', ['+', 'b', '1'], 'z'],
                                        repeat=3):
        for body in (['+', 'x', ['-', 'y', 'z']],
                     ['let', [['z', 'x']], ['+', 'z', 'y']]):
            env3 = dict(genv)
            env3['z'] = 'Int'
            yield term_case('LetSubstitution',
                            ['>', ['let', [['x', t1], ['y', t2], ['z', t3]],
                                   body], '0'], env3, note='let')
    for t1, t2 in itertools.product(['a', 'b', ['+', 'b', '1']], repeat=2):
        for body in (['-', 'a', 'b'], ['+', 'a', 'a']):
            yield term_case('LetSubstitution',
                            ['>', ['let', [['a', t1], ['b', t2]], body], '0'],
                            genv, note='let')
    # --- datatypes
    denv = {'n1': 'Int', 'l': typed.LST, 't': typed.TAG, 's': typed.SHAPE}
    for A in ('n1', '4', ['+', 'n1', '1']):
        for L in ('l', 'nil', ['cons', '0', 'l']):
            yield term_case('RemoveDatatypeIdentity', ['hd', ['cons', A, L]],
                            denv, extra_cmds=DT_DECLS)
            yield term_case('RemoveDatatypeIdentity', ['tl', ['cons', A, L]],
                            denv, extra_cmds=DT_DECLS)
        for T in ('t', 'ta', ['tb', 's', '1']):
            yield term_case('RemoveDatatypeIdentity',
                            ['side', ['square', A, T]], denv,
                            extra_cmds=DT_DECLS)
            yield term_case('RemoveDatatypeIdentity',
                            ['tag', ['square', A, T]], denv,
                            extra_cmds=DT_DECLS)
        yield term_case('RemoveDatatypeIdentity', ['rad', ['circle', A]],
                        denv, extra_cmds=DT_DECLS)
        yield term_case('RemoveDatatypeIdentity',
                        ['cnt', ['tb', ['circle', A], A]], denv,
                        extra_cmds=DT_DECLS)
        yield term_case('RemoveDatatypeIdentity',
                        ['inner', ['tb', ['circle', A], A]], denv,
                        extra_cmds=DT_DECLS)
    # --- FP sort abbreviation
    for eb, sb in [(5, 11), (8, 24), (11, 53), (15, 113), (5, 12), (8, 23),
                   (11, 52), (15, 112), (24, 8), (2, 3)]:
        script = [['declare-const', 'f', ['_', 'FloatingPoint', str(eb),
                                          str(sb)]]]
        yield Case('FPShortSort', script, (0, 2), {}, kind='sort')


# --------------------------------------------------------------------------


def node_at(exprs, path):
    n = exprs[path[0]]
    for i in path[1:]:
        n = n.data[i]
    return n


def replace_at(tree, path, new):
    if not path:
        return new
    t = list(tree)
    t[path[0]] = replace_at(t[path[0]], path[1:], new)
    return t


FP_NAMES = {'Float16': ('FP', 5, 11), 'Float32': ('FP', 8, 24),
            'Float64': ('FP', 11, 53), 'Float128': ('FP', 15, 113)}


def fp_sort(tree):
    if isinstance(tree, str):
        return FP_NAMES.get(tree)
    if len(tree) == 4 and tree[:2] == ['_', 'FloatingPoint']:
        return ('FP', int(tree[2]), int(tree[3]))
    return None


def assignments(env):
    names = sorted(env)
    doms = [domain(env[n]) for n in names]
    for combo in itertools.product(*doms):
        yield dict(zip(names, combo))


def run_case(part, case):
    from ddsmt import mutators, smtlib
    from ddsmt.nodes import Node
    import importlib
    exprs = [sexp.list_to_node(c, Node) for c in case.script]
    with common.quiet():
        smtlib.collect_information(exprs)
    node = node_at(exprs, case.path)
    orig = sexp.node_to_list(node)
    m = None
    for grp, (mod, ms) in mutators.get_all_mutators().items():
        if case.mutator in ms:
            m = getattr(mod, case.mutator)()
    common.pcount(part, 'evaluations')

    def fail(kind, detail, kf=None):
        common.pviolation(
            part, f'{case.mutator}|{kind}|{sexp.serialize(orig)[:50]}', {
                'brief': f'{case.mutator}: {kind}: {sexp.serialize(orig)} '
                         f'{detail} (script: '
                         f'{sexp.serialize_all(case.script)[:300]})',
                'script': case.script, 'path': list(case.path),
                'mutator': case.mutator}, kf=kf)

    try:
        with common.quiet():
            ok = m.filter(node)
    except Exception as e:  # noqa
        fail('filter-exception', repr(e))
        return
    if not ok:
        common.pcount(part, 'not_accepted_by_filter')
        return
    try:
        with common.quiet():
            simps = list(m.mutations(node)) if hasattr(m, 'mutations') else \
                list(m.global_mutations(node, exprs))
    except Exception as e:  # noqa
        fail('mutations-exception', f'accepted by the filter, then '
             f'{type(e).__name__}: {e}')
        return
    funs_sorts = {k: v[2] for k, v in case.funs.items()}
    funs_ev = {k: (v[0], v[1]) for k, v in case.funs.items()}
    for simp in simps:
        common.pcount(part, 'distinct_nontrivial')
        common.pcount(part, f'proposals_{case.mutator}')
        if list(simp.substs.keys()) != [node.id]:
            fail('unexpected-keys', repr(simp.substs))
            continue
        repl = sexp.node_to_list(simp.substs[node.id])
        if case.kind == 'sort':
            if fp_sort(repl) != fp_sort(orig):
                fail('different-sort', f'-> {sexp.serialize(repl)}')
            continue
        if case.kind == 'define-fun':
            # value of every defined symbol before and after
            def defs(script):
                fs = {}
                for c in script:
                    if c[0] == 'define-fun':
                        fs[c[1]] = ([], c[4])
                return fs
            before = defs(case.script)
            after = defs(replace_at(case.script, case.path, repl))
            if repl[:4] != orig[:4]:
                fail('signature-changed', f'-> {sexp.serialize(repl)}')
                continue
            for asg in assignments(case.env):
                for name in before:
                    try:
                        v1 = evalsmt.ev(name, asg, before)
                        v2 = evalsmt.ev(name, asg, after)
                    except (evalsmt.EvalError, evalsmt.Undefined) as e:
                        fail('not-evaluable', f'-> {sexp.serialize(repl)}: '
                             f'{e}')
                        break
                    if v1 != v2:
                        fail('value-differs',
                             f'-> {sexp.serialize(repl)}: {name} = {v1} '
                             f'before, {v2} after under {asg}')
                        break
                else:
                    continue
                break
            continue
        # ordinary term
        try:
            s1 = typed.check(orig, case.env, funs_sorts)
        except typed.SortError as e:
            raise common.HarnessError(f'ill-sorted instance {orig}: {e}')
        try:
            s2 = typed.check(repl, case.env, funs_sorts)
        except typed.SortError as e:
            fail('replacement-ill-sorted', f'-> {sexp.serialize(repl)}: {e}')
            continue
        if s1 != s2:
            fail('sort-differs', f': {s1} -> {sexp.serialize(repl)} : {s2}')
            continue
        bad = None
        n_asg = 0
        for asg in assignments(case.env):
            try:
                v1 = evalsmt.ev(orig, asg, funs_ev, DTS, QDOM)
            except evalsmt.Undefined:
                continue
            try:
                v2 = evalsmt.ev(repl, asg, funs_ev, DTS, QDOM)
            except evalsmt.Undefined:
                continue
            except evalsmt.EvalError as e:
                bad = f'replacement not evaluable: {e}'
                break
            n_asg += 1
            if v1 != v2:
                bad = f'= {v1}, replacement = {v2} under {asg}'
                break
        common.pcount(part, 'assignments', n_asg)
        if bad:
            fail('value-differs', f'-> {sexp.serialize(repl)}: original '
                 f'{bad}')
    if len(part['samples']) < 1 and simps:
        part['samples'].append({
            'mutator': case.mutator, 'term': sexp.serialize(orig),
            'replacement': sexp.serialize(sexp.node_to_list(
                simps[0].substs[node.id]))})


def run_unit(unit):
    tier, idx, n = unit
    part = common.part_result()
    for i, case in enumerate(instances(tier)):
        if case is None or i % n != idx:
            continue
        run_case(part, case)
        common.pcount(part, f'instances_{case.mutator}')
    return part


def main(tier):
    rep = common.Reporter(PROP, 'exploration', tier)
    n = 64
    parts = common.pmap(run_unit, [(rep.tier, i, n) for i in range(n)],
                        init=_init)
    for p in parts:
        rep.merge(p)
    rep.set(
        'rule', 'for each of the 21 mutators the property lists: all '
        'instances within the bounds (operands from variables, constants in '
        'every notation and compound terms; widths 1-4 and 8; every '
        'well-sorted index value; capture cases for inlining and let) that '
        'the real filter accepts; every proposed replacement is sort-checked '
        'and evaluated under all assignments over finite domains; '
        'distinct_nontrivial = proposals checked')
    missing = [m for m in MUTATORS
               if not rep.coverage.get(f'proposals_{m}')]
    if missing:
        raise common.HarnessError(
            f'vacuous: no proposal checked for {missing}')
    rep.set('exhaustive', True)
    rep.assume('sort checker ddv/typed.py and evaluator ddv/evalsmt.py '
               '(self-tested)', 'quantifiers range over finite domains (the '
               'checked identities hold over any fixed domain)',
               'n-ary forms are only generated where the documentation '
               'states the identity for them')
    return rep.finish()


def replay(rec):
    _init()
    r = rec['record']
    print(r['brief'])
    # find the recorded instance again (scripts are regenerated
    # deterministically) and re-run it
    part = common.part_result()
    for tier in ('quick', 'thorough'):
        for case in instances(tier):
            if case is not None and case.mutator == r['mutator'] and \
                    case.script == r['script'] and \
                    list(case.path) == r['path']:
                run_case(part, case)
                for v in part['violations'][:5]:
                    print('FAIL', v[1]['brief'][:300])
                return 1 if part['violations'] else 0
    print('instance not found in the current enumeration')
    return 1
