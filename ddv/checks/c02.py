"""C02 - the hierarchical/hybrid result is a fixed point of every enabled
mutator (SCHED + re-enumeration of all proposals on the final input)."""
from .. import oracles, scenarios as S, schedcheck

PROP = 'C02'


def menu(tier):
    scn = []
    b = 2 if tier == 'thorough' else 1
    fam = [('bool5', 'and+b', 'default'), ('bool5', 'c', 'boolean'),
           ('bv', 'x+bvult', 'default'), ('int', 'not=', 'default'),
           ('str', 'len', 'default'), ('binders', 'f', 'default'),
           ('binders', 'forall', 'smtlib'), ('asserts8', 'xor', 'core'),
           ('consts', 'v2', 'default'), ('commented', 'or', 'default'),
           ('micro', 'a', 'core'), ('micro2', 'or', 'default')]
    for inp, mname, ms in fam:
        model = dict(S.MODELS[inp])[mname]
        for strat in ('hierarchical', 'hybrid'):
            for j in (1, 2, 3):
                scn.append(S.mk(f'{inp}/{mname}/{strat}/j{j}/{ms}', inp,
                                model, strat, j, S.MUTATOR_SETS[ms],
                                budget=b if j > 1 else 0))
    # a simplification that puts one object at two positions: only a run
    # that re-establishes distinct identities can still reduce the second
    shared = '''(declare-fun f (Int) Int)
(declare-fun g (Int Int Int) Bool)
(declare-const a Int)
(declare-const b Int)
(assert (let ((v (f a)) (w (f b))) (g v b v)))
'''
    for strat in ('hierarchical', 'hybrid'):
        for j in (1, 2):
            scn.append(S.mk(f'shared-copy/{strat}/j{j}', shared,
                            ('anyof', ['( g ( f a ) b',
                                       '( v ( f a ) ) ( w ( f b ) ) ) ( g v b']),
                            strat,
                            j, [], budget=b if j > 1 else 0))
    # a success of a late (cosmetic) mutator that enables a proposal of a
    # main mutator: shortening ab to a makes ReplaceByVariable's a -> aa legal
    rename = '''(declare-const ab Bool)
(declare-const aa Bool)
(assert (or ab ab))
'''
    for strat in ('hierarchical', 'hybrid'):
        for j in (1, 2):
            scn.append(S.mk(f'rename-enables/{strat}/j{j}', rename,
                            ('re', r'^(\( declare-const [abc]+ Bool \) ){2,3}'
                             r'(\( assert \( or [abc]+ [abc]+ \) \) ?){1,2}$'),
                            strat, j, [],
                            budget=b if j > 1 else 0))
    # only a joint change is acceptable: push and pop can only go together,
    # which is a *global* proposal (binary reduction over the top level)
    joint = '(declare-const a Bool)\n(assert a)\n(push 1)\n(pop 1)\n'
    for strat in ('hierarchical', 'hybrid'):
        scn.append(S.mk(
            f'joint-removal/{strat}/j1', joint,
            ('re', r'^\( declare-const a Bool \) \( assert a \)'
             r'( \( push 1 \) \( pop 1 \))?$'), strat, 1, [], budget=0))
    for inp, ms in (('micro', 'core'), ('micro2', 'core'),
                    ('micro2', 'erase'), ('micro', 'boolean')):
        for strat in ('hierarchical', 'hybrid'):
            for j in (1, 2):
                scn.append(S.mk(f'{inp}/adversarial/A2/{strat}/j{j}/{ms}',
                                inp, ('adversarial', ), strat, j,
                                S.MUTATOR_SETS[ms], budget=0, accept=2))
            scn.append(S.mk(f'{inp}/adversarial/A1s1/{strat}/j2/{ms}', inp,
                            ('adversarial', ), strat, 2, S.MUTATOR_SETS[ms],
                            budget=1, accept=1))
    # the symbol tables are rebuilt while a task generator may still run
    for strat in ('hierarchical', 'hybrid'):
        for j in (1, 2):
            for eager in (False, True):
                scn.append(S.mk(
                    f'table-window/{strat}/j{j}/' +
                    ('eager' if eager else 'fill'), S.WINDOW_INPUT,
                    S.WINDOW_MODEL, strat, j, S.WINDOW_ARGS, budget=b,
                    eager_pull=eager))
    for x in scn:
        if x.get('budget', 0) > 0 and x['model'][0] != 'adversarial':
            x['prune'] = True
    return scn


def budgets_of(scn):
    return {'sched': scn.get('budget', 0), 'accept': scn.get('accept', 0)}


RULE = ('hierarchical and hybrid runs, -j 1/2/3, several mutator sets, '
        'schedule budget 1 (thorough 2), adversarial lazily decided command '
        'with accept budget 2 (= every deterministic command accepting <= 2 '
        'of the candidates shown); at normal termination every proposal of '
        'every enabled mutator at every node of the final in-memory input is '
        're-derived with ddSMT\'s own Producer and must be rejected (concrete '
        'command) / must have been put to the command and rejected '
        '(adversarial); default-schedule runs are also re-run with '
        '--strategy hierarchical on their own output')


def conformance(tier):
    def extra(rep):
        from .. import conform
        j1 = [s for s in menu(tier) if '/j1/' in s['name'] + '/' and
              s['model'][0] != 'adversarial']
        conform.j1_conformance(rep, j1 if tier == 'thorough'
                               else j1[rep.seed % 4::4])
    return extra


def main(tier):
    return schedcheck.run(
        PROP, 'model_checking', tier, menu(tier), oracles.judge_c02,
        budgets_of, RULE,
        ('virtual pool abstraction (DESIGN 2.5)',
         'proposals are re-derived with the same Producer/mutator code the '
         'run used (the oracle is about the loop bookkeeping, not about the '
         'mutators themselves)'),
        vacuity={'final_states_checked': 10, 'proposals_rechecked': 100},
        extra=conformance(tier))


def replay(rec):
    return schedcheck.replay(rec, oracles.judge_c02)
