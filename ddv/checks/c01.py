"""C01 - the output file reproduces the golden behaviour (SCHED)."""
from .. import oracles, scenarios as S, schedcheck

PROP = 'C01'


def menu(tier):
    scn = []
    # (1) full product at schedule budget 0: input x model x strategy x j
    for inp, models in S.MODELS.items():
        if inp.startswith('micro'):
            continue
        for mname, model in models:
            for strat in S.STRATEGIES:
                for j in (1, 2, 3):
                    scn.append(S.mk(f'{inp}/{mname}/{strat}/j{j}', inp,
                                    model, strat, j, budget=0))
    # (2) formats and comparisons (budget 0, j=2)
    import os
    seed = int(os.environ.get('VERIF_SEED', '0') or 0)
    k = 0
    for inp, model in S.STREAMS.items():
        for strat in S.STRATEGIES:
            for cmpo in S.COMPARISONS:
                for fmt in S.FORMATS:
                    k += 1
                    # a third of this family (rotated by VERIF_SEED; all of
                    # it in thorough) also gets all schedules with one
                    # deviation
                    b = 1 if (tier == 'thorough' or k % 3 == seed % 3) else 0
                    scn.append(S.mk(
                        f'{inp}/streams/{strat}/{"".join(cmpo + fmt)}', inp,
                        model, strat, 2, cmpo + fmt, budget=b))
    # cross check
    for strat in S.STRATEGIES:
        for ccopt in ([], ['--ignore-output-cc'], ['--match-out-cc', 'A']):
            scn.append(S.mk(f'bool5/cc/{strat}/{"".join(ccopt)}', 'bool5',
                            ('has', ['and']), strat, 2, ccopt,
                            cc_model=S.STREAMS['bool5'], budget=0))
    for fmt in S.FORMATS:
        for strat in S.STRATEGIES:
            scn.append(S.mk(f'commented/{strat}/{"".join(fmt)}', 'commented',
                            ('has', ['or']), strat, 2, fmt, budget=0))
    # bare atoms, literals and comments at top level that have to survive
    atoms = ('; top\n(declare-const a Bool)\npush pop\n"lit" |q s|\n'
             '(assert (or a a))\nexit\n')
    for fmt in S.FORMATS:
        for strat in S.STRATEGIES:
            scn.append(S.mk(f'atoms/{strat}/{"".join(fmt)}', atoms,
                            ('has', ['or', 'push', 'pop', '"lit"', '|q s|',
                                     'exit']), strat, 2, fmt, budget=0))
    # (3) schedules: budget 1 on a covering subset, 2 on micro scenarios
    b1 = 2 if tier == 'thorough' else 1
    for inp, mname, ms in (('bool5', 'and+b', 'default'),
                           ('int', '+', 'default'),
                           ('asserts8', '3asserts', 'erase'),
                           ('consts', '4gt', 'core'),
                           ('binders', 'f', 'nofresh')):
        model = dict(S.MODELS[inp])[mname]
        for strat in S.STRATEGIES:
            for j in (2, 3):
                scn.append(S.mk(f'{inp}/{mname}/{strat}/j{j}/{ms}/sched',
                                inp, model, strat, j, S.MUTATOR_SETS[ms],
                                budget=b1))
    b2 = 3 if tier == 'thorough' else 2
    for strat in S.STRATEGIES:
        for j in (2, 3):
            scn.append(S.mk(f'micro/{strat}/j{j}/sched2', 'micro',
                            ('has', ['and']), strat, j,
                            S.MUTATOR_SETS['core'], budget=b2))
            scn.append(S.mk(f'asserts8/{strat}/j{j}/erase/sched2',
                            'asserts8', ('count', 'assert', 3), strat, j,
                            S.MUTATOR_SETS['erase'], budget=b2 - 1))
    # ddmin's parallel path with successes in it
    for inp, models in S.MODELS_DDMIN.items():
        mname, model = models[-1]
        for strat in ('ddmin', 'hybrid'):
            ms = 'core' if inp == 'consts2' else 'erase'
            scn.append(S.mk(f'{inp}/{mname}/{strat}/j2/{ms}/par', inp, model,
                            strat, 2, S.MUTATOR_SETS[ms], budget=1))
    for x in scn:
        if x.get('budget', 0) > 0:
            x['prune'] = True
    return scn


def budgets_of(scn):
    return {'sched': scn.get('budget', 0), 'accept': 0}


RULE = ('scenario = (input, command model, strategy, -j, output format, '
        'comparison options, mutator set); every scenario at schedule budget '
        '0, a covering subset at budget 1 (thorough 2), micro scenarios at '
        'budget 2 (3); each execution = one run of ddsmt.__main__.main() '
        'under the virtual pool; distinct_nontrivial = distinct (accepted '
        'chain, output bytes) outcomes')
ASSUME = ('virtual pool abstraction (DESIGN 2.5): PULL/FIN/DEL atomic, '
          'results FIFO, flag reads summarised by k',
          'command = deterministic function of the token sequence '
          '(ddv/sched.py run_model)', 'reference tokenizer ddv/sexp.py')


def main(tier):
    scns = menu(tier)

    def extra(rep):
        # REAL conformance tier: model traces of the -j 1 scenarios replayed
        # against bin/ddsmt with the command model as a real script
        from .. import conform
        j1 = [s for s in scns if s['name'].endswith('/j1')]
        if tier != 'thorough':
            j1 = j1[rep.seed % 3::3]
        conform.j1_conformance(rep, j1)

    return schedcheck.run(
        PROP, 'model_checking', tier, scns, oracles.judge_c01,
        budgets_of, RULE + '; REAL tier: the default-schedule model trace '
        'of -j 1 scenarios (a third of them per quick run, rotated by '
        'VERIF_SEED; all in thorough) is replayed against bin/ddsmt with '
        'the command model as a real script: the sequence of candidates the '
        'command sees and the output must be reproduced by a model '
        'execution (trace inclusion, <= 3 schedule deviations)', ASSUME,
        vacuity={'executions_with_output': 10,
                 'executions_with_two_results_in_flight': 1}, extra=extra)


def replay(rec):
    return schedcheck.replay(rec, oracles.judge_c01)
