"""C05 - accepted inputs form a chain; stale parallel results are never
adopted (SCHED)."""
from .. import oracles, scenarios as S, schedcheck

PROP = 'C05'


def judge(part, scn, x):
    oracles.judge_c05(part, scn, x)
    oracles.judge_c13(part, scn, x)


def menu(tier):
    scn = []
    # with state pruning (ddv/sched.py fingerprint) budget 2 costs about
    # what budget 1 cost without it
    b1 = 2 if tier == 'thorough' else 1
    b2 = 3 if tier == 'thorough' else 2
    # concrete command families, all strategies, j in {2,3}
    for inp, mname, ms, b in (
            ('bool5', 'and+b', 'default', b1),
            ('bv', 'bvadd', 'default', b1),
            ('asserts8', '3asserts', 'erase', b2),
            ('asserts8', 'xor', 'default', b1),
            ('consts', '4gt', 'core', b1),
            ('consts', 'v2', 'default', b1),
            ('str', 'contains', 'default', b1),
            ('binders', 'forall', 'default', b1),
            ('micro', 'a', 'core', b2),
            ('micro2', 'or', 'core', b2)):
        model = dict(S.MODELS[inp])[mname]
        for strat in S.STRATEGIES:
            for j in (2, 3):
                bb = b if (tier == 'thorough' or j == 2) else min(b, 1)
                scn.append(S.mk(f'{inp}/{mname}/{strat}/j{j}/{ms}', inp,
                                model, strat, j, S.MUTATOR_SETS[ms],
                                budget=bb))
    # ddmin's parallel path (_check_par): models that need most of the input
    for inp, models in S.MODELS_DDMIN.items():
        for mname, model in models:
            for strat in ('ddmin', 'hybrid'):
                for j in (2, 3):
                    for ms in (('core', ) if inp == 'consts2' else
                               ('erase', 'default')):
                        if ms == 'default' and j == 3:
                            continue
                        bb = b2 if ms == 'erase' else b1
                        if tier != 'thorough' and (j == 3 or
                                                   strat == 'hybrid'):
                            bb = 1
                        scn.append(S.mk(
                            f'{inp}/{mname}/{strat}/j{j}/{ms}/par', inp,
                            model, strat, j, S.MUTATOR_SETS[ms], budget=bb))
    # adversarial, lazily decided command: every deterministic command that
    # accepts at most A of the candidates it is shown
    for inp, ms in (('micro', 'core'), ('micro2', 'core'),
                    ('micro2', 'erase')):
        for strat in S.STRATEGIES:
            for j in (2, 3):
                scn.append(S.mk(f'{inp}/adversarial/A2/{strat}/j{j}/{ms}',
                                inp, ('adversarial', ), strat, j,
                                S.MUTATOR_SETS[ms], budget=0, accept=2))
            if tier == 'thorough' or ((inp, ms) != ('micro2', 'core')
                                      and strat != 'hybrid'):
                scn.append(S.mk(f'{inp}/adversarial/A1s1/{strat}/j2/{ms}',
                                inp, ('adversarial', ), strat, 2,
                                S.MUTATOR_SETS[ms], budget=1, accept=1))
    if tier == 'thorough':
        for strat in S.STRATEGIES:
            scn.append(S.mk(f'asserts8/adversarial/A2/{strat}/j2/erase',
                            'asserts8', ('adversarial', ), strat, 2,
                            S.MUTATOR_SETS['erase'], budget=1, accept=2))
            scn.append(S.mk(f'micro2/adversarial/A2s1/{strat}/j2/core',
                            'micro2', ('adversarial', ), strat, 2,
                            S.MUTATOR_SETS['core'], budget=1, accept=2))
    return scn


def budgets_of(scn):
    return {'sched': scn.get('budget', 0), 'accept': scn.get('accept', 0)}


def pruned(menu_):
    for s in menu_:
        if s['model'][0] != 'adversarial':
            s['prune'] = True
    return menu_


RULE = ('scenarios with -j 2/3, all strategies; schedule budget 1-2 '
        '(thorough 2-3), with pruning of revisited control states, incl. simultaneous successes and late results; '
        'adversarial command: every deterministic command accepting at most '
        '2 of the candidates shown; oracle on monitored events '
        '(derive(base,cand), verdict, write, file at exit); '
        'distinct_nontrivial = distinct (accepted chain, output bytes); REAL '
        'tier: real -j 2/3 runs of bin/ddsmt with the command model as a '
        'real script must end in an output that a model execution with <= 2 '
        'deviations produces')


def conformance(tier):
    def extra(rep):
        # REAL tier: real -j 2/3 runs (real Pool, Manager event, real
        # subprocesses) must end in an output the model reaches
        from .. import conform
        scns = []
        for inp, mname, ms in (('bool5', 'and+b', 'core'),
                               ('asserts8', '3asserts', 'erase'),
                               ('consts', '4gt', 'core'), ('int', '+', 'core')):
            model = dict(S.MODELS[inp])[mname]
            for strat in S.STRATEGIES:
                for j in ((2, 3) if tier == 'thorough' else (2, )):
                    scns.append(S.mk(f'real/{inp}/{strat}/j{j}', inp, model,
                                     strat, j, S.MUTATOR_SETS[ms]))
        if tier != 'thorough':
            scns = scns[rep.seed % 3::3]
        conform.jn_conformance(rep, scns)
    return extra


def main(tier):
    return schedcheck.run(
        PROP, 'model_checking', tier, pruned(menu(tier)), judge, budgets_of,
        RULE,
        ('virtual pool abstraction (DESIGN 2.5)',
         'monitors on apply_simp / check_exprs / write_smtlib_to_file are '
         'pass-through', 'reference tokenizer ddv/sexp.py'),
        vacuity={'executions_with_discarded_success': 1,
                 'executions_using_check_par': 1,
                 'executions_with_two_results_in_flight': 1},
        extra=conformance(tier),
        # the deep budgets of the thorough tier are bounded per scenario
        # (reported under caps_hit)
        max_execs=1000 if tier == 'thorough' else None)


def replay(rec):
    return schedcheck.replay(rec, judge)
