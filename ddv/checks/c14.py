"""C14 - exactly the enabled mutators are used.

ENUM: every sequence of <= 2 (thorough: 3) mutator / group / --disable-all
options x inputs that declare or do not declare something of each detectable
theory, through the real option parser, auto_detect_theories, ddmin_passes and
get_passes; oracle = a fold over the sequence + the detection rule of the
statement.  DESIGN 3/C14.
"""
import copy
import itertools

from .. import common

PROP = 'C14'

DECLS = {
    'arithmetic': ['(declare-const a Int)', '(declare-fun a2 () Real)',
                   '(define-fun a3 () Int 1)', '(define-sort A4 () Int)',
                   '(declare-const a5 (Array Bool Int))'],
    'bv': ['(declare-const b (_ BitVec 8))',
           '(declare-fun b2 () (_ BitVec 1))',
           '(define-fun b3 () (_ BitVec 2) #b00)',
           '(define-sort B4 () (_ BitVec 4))',
           '(declare-const b5 (Array (_ BitVec 4) (_ BitVec 4)))',
           '(declare-fun b6 (Bool) (Array Bool (_ BitVec 2)))'],
    'datatypes': ['(declare-datatype D ((c)))',
                  '(declare-datatypes ((E 0)) (((e))))'],
    'fp': ['(declare-const f Float32)', '(declare-fun f2 () RoundingMode)',
           '(define-fun f3 () (_ FloatingPoint 5 11) f)',
           '(declare-const f4 (_ FloatingPoint 8 24))',
           '(declare-const f5 (Array Bool Float16))'],
    'strings': ['(declare-const s String)', '(declare-fun s2 () (Seq Bool))',
                '(define-fun s3 () String "")',
                '(declare-const s4 (Array Bool String))'],
}
DETECTABLE = list(DECLS)
NEUTRAL = '(declare-const p Bool)\n(declare-fun u (U) U)\n(assert p)\n'


def _init():
    common.import_ddsmt()


def registry():
    from ddsmt import mutators
    groups = {}
    for g, (mod, ms) in mutators.get_all_mutators().items():
        groups[g] = dict(ms)
    return groups


def alphabet(groups):
    letters = ['--disable-all']
    for g, ms in groups.items():
        letters += [f'--{g}', f'--no-{g}']
        for cls, opt in ms.items():
            letters += [f'--{opt}', f'--no-{opt}']
    return letters


def fold(groups, seq):
    """Expected (mutator flags by class name, group tri-state)."""
    mut = {c: True for ms in groups.values() for c in ms}
    grp = {g: None for g in groups}
    byopt = {opt: (g, c) for g, ms in groups.items() for c, opt in ms.items()}
    for o in seq:
        if o == '--disable-all':
            for g in grp:
                grp[g] = False
            for c in mut:
                mut[c] = False
            continue
        val = not o.startswith('--no-')
        name = o[5:] if o.startswith('--no-') else o[2:]
        if name in groups:
            grp[name] = val
            for c in groups[name]:
                mut[c] = val
        else:
            g, c = byopt[name]
            mut[c] = val
    return mut, grp


def detect(groups, mut, grp, declared):
    mut = dict(mut)
    for g in DETECTABLE:
        if grp[g] is None and g not in declared:
            for c in groups[g]:
                mut[c] = False
    return {c for c, v in mut.items() if v}


def classes_of(passes):
    out = []
    for p in passes:
        if isinstance(p, tuple):
            p = p[0]
        out.append([type(m).__name__ for m in p])
    return out


def run_unit(unit):
    from ddsmt import mutators, nodeio, options, strategy_ddmin, \
        strategy_hierarchical
    part = common.part_result()
    groups = registry()
    letters = alphabet(groups)
    if unit[0] == 'sandwich':
        _, first, letters = unit
        length, input_ids = 3, ((0, 0), (31, 0))
    else:
        _, first, length, input_ids = unit
    inputs = {}
    for iid in input_ids:
        declared = {g for k, g in enumerate(DETECTABLE) if iid[0] >> k & 1}
        text = NEUTRAL + ''.join(
            DECLS[g][iid[1] % len(DECLS[g])] + '\n' for g in DETECTABLE
            if g in declared)
        inputs[iid] = (declared, list(nodeio.parse_smtlib(text)), text)
    prefix = () if first is None else (
        tuple(first) if isinstance(first, (tuple, list)) else (first, ))
    for rest in itertools.product(letters, repeat=length - len(prefix)):
        seq = prefix + tuple(rest)
        try:
            with common.quiet():
                ns = options.parse_options(mutators,
                                           list(seq) + ['in', 'out', 'cmd'])
        except SystemExit:
            common.pviolation(part, f'parse|rejected|{seq}', {
                'brief': f'option sequence {seq} rejected by the parser',
                'seq': list(seq)})
            continue
        mut, grp = fold(groups, seq)
        for iid, (declared, exprs, text) in inputs.items():
            common.pcount(part, 'evaluations')
            options.__dict__['__PARSED_ARGS'] = copy.copy(ns)
            try:
                with common.quiet():
                    mutators.auto_detect_theories(exprs)
                    hier = classes_of(strategy_hierarchical.get_passes())
                    ddm = classes_of(strategy_ddmin.ddmin_passes())
            except Exception as e:  # noqa
                common.pviolation(part, f'passes|exception|{seq}', {
                    'brief': f'{type(e).__name__} {e} for {seq}',
                    'seq': list(seq), 'input': text})
                continue
            E = detect(groups, mut, grp, declared)
            if E != set(mut):
                common.pcount(part, 'distinct_nontrivial')
            bad = []
            used_h = set(c for p in hier for c in p)
            if not used_h <= E:
                bad.append(f'hierarchical passes use disabled mutators '
                           f'{sorted(used_h - E)}')
            if set(hier[-1]) != E:
                bad.append(
                    f'last hierarchical pass lacks {sorted(E - set(hier[-1]))}'
                    f' / has extra {sorted(set(hier[-1]) - E)}')
            if len(hier[-1]) != len(set(hier[-1])):
                bad.append('last hierarchical pass lists a mutator twice')
            used_d = set(c for p in ddm for c in p)
            want_d = E - {'BinaryReduction'}
            if used_d != want_d:
                bad.append(f'ddmin passes lack {sorted(want_d - used_d)} / '
                           f'have extra {sorted(used_d - want_d)}')
            for b in bad:
                common.pviolation(
                    part, f'passes|{b.split(" [")[0][:50]}|{seq}|{iid}', {
                        'brief': f'options {list(seq)} with input declaring '
                                 f'{sorted(declared)}: {b}',
                        'seq': list(seq), 'input': text,
                        'declared': sorted(declared)})
    if prefix == ('--no-bv', ) and length == 2:
        part['samples'].append({
            'options': ['--no-bv', '--bv-to-bool'],
            'input_declares': sorted(next(iter(inputs.values()))[0])})
    return part


def registry_sanity(rep):
    from ddsmt import mutators, options
    groups = registry()
    seen_opts = {}
    for g, (mod, ms) in mutators.get_all_mutators().items():
        for cls, opt in ms.items():
            rep.count('evaluations')
            if not isinstance(getattr(mod, cls, None), type):
                rep.violation(f'registry|class-missing|{cls}', {
                    'brief': f'registered mutator {cls} of group {g} does '
                             f'not resolve to a class'})
            if opt in seen_opts:
                rep.violation(f'registry|option-shared|{opt}', {
                    'brief': f'option {opt} is shared by {seen_opts[opt]} '
                             f'and {cls}'})
            seen_opts[opt] = cls
            # the flag the passes look up must be the one the option sets
            for neg in (False, True):
                o = f'--no-{opt}' if neg else f'--{opt}'
                ns = options.parse_options(mutators, [o, 'i', 'o', 'c'])
                attr = f'mutator_{opt.replace("-", "_")}'
                if getattr(ns, attr, None) is not (not neg):
                    rep.violation(f'registry|flag-not-set|{opt}', {
                        'brief': f'{o} does not set {attr}'})
            # a single mutator enabled alone must be instantiated
            options.__dict__['__PARSED_ARGS'] = options.parse_options(
                mutators, ['--disable-all', f'--{opt}', 'i', 'o', 'c'])
            got = [type(m).__name__ for m in mutators.get_mutators([cls])]
            if got != [cls]:
                rep.violation(f'registry|lookup|{cls}', {
                    'brief': f'get_mutators([{cls}]) with only --{opt} '
                             f'enabled returns {got}'})
    return groups


def traced_runs(rep):
    """Traced-run clause: in real runs (SCHED launcher, default schedule) the
    mutators the strategies actually instantiate and use for candidates must
    all be enabled according to the fold over the command line + detection."""
    from .. import explore, scenarios as S, sched
    groups = registry()
    option_sets = [[], ['--disable-all', '--erase-node'],
                   ['--no-core', '--constants'], ['--disable-all', '--bv'],
                   ['--no-bv', '--bv-to-bool'], ['--no-boolean'],
                   ['--arithmetic', '--no-arith-constants'],
                   ['--disable-all', '--smtlib', '--no-let-elimination'],
                   ['--strings', '--fp', '--no-smtlib']]
    inputs = [('bool5', S.BOOL5, set()), ('bv', S.BV, {'bv'}),
              ('int', S.INT, {'arithmetic'}), ('str', S.STR, {'strings'})]
    units = []
    for opts in option_sets:
        for iname, text, declared in inputs:
            for strat in S.STRATEGIES:
                units.append((opts, iname, text, sorted(declared), strat))

    def one(u):
        opts, iname, text, declared, strat = u
        scn = S.mk(f'c14/{iname}/{strat}/{"".join(opts)}', text,
                   ('count', '(', 3), strat, 1, opts)
        x = sched.run_once(scn, explore.Chooser([]))
        used = set()
        for e in x.log:
            if e[0] == 'generated':
                if e[1] == 'hier':
                    used |= set(e[4])
                else:
                    used.add(e[6])
        return opts, iname, declared, strat, sorted(used), \
            x.crash and x.crash[:2]

    for opts, iname, declared, strat, used, crash in common.pmap(
            one, units, init=sched._init_worker):
        rep.count('evaluations')
        rep.count('traced_runs')
        mut, grp = fold(groups, opts)
        E = detect(groups, mut, grp, set(declared))
        extra = set(used) - E
        if extra:
            rep.violation(f'traced|disabled-mutator-used|{opts}|{iname}', {
                'brief': f'run with options {opts} on input {iname} '
                         f'(--strategy {strat}) used the disabled mutators '
                         f'{sorted(extra)}'})
        if used and E != set(mut):
            rep.count('distinct_nontrivial')


def main(tier):
    rep = common.Reporter(PROP, 'exploration', tier)
    _init()
    groups = registry_sanity(rep)
    letters = alphabet(groups)
    all_inputs = [(m, v) for m in range(32) for v in range(1)]
    # alternative declaration forms (define-fun / declare-fun / define-sort)
    alt_inputs = [(31, v) for v in (1, 2, 3, 4, 5)] + [
        (m, v) for m in (1, 2, 4, 8, 16) for v in (1, 2, 3, 4, 5)]
    # length 2: none, all, every single theory, every all-but-one (detection
    # is decided per group, so each group is seen declared and undeclared
    # next to every other state); thorough uses all 32
    pair_inputs = all_inputs if rep.tier == 'thorough' else [
        (m, 0) for m in (0, 31, 1, 2, 4, 8, 16, 30, 29, 27, 23, 15)]
    units = [('seq', None, 0, tuple(all_inputs + alt_inputs))]
    for f in letters:
        units.append(('seq', f, 1, tuple(all_inputs + alt_inputs)))
        units.append(('seq', f, 2, tuple(pair_inputs)))
    if rep.tier == 'thorough':
        # all triples that start with a group-level option or with every
        # 6th letter of the alphabet (the whole cube takes over an hour)
        gl = ['--disable-all'] + [x for x in letters if x[2:] in groups
                                  or x[5:] in groups]
        firsts = [f for i, f in enumerate(letters) if f in gl or i % 6 == 0]
        for f in firsts:
            for g in letters:
                units.append(('seq', (f, g), 3,
                              ((0, 0), (31, 0), (21, 0), (10, 0))))
        for x in gl:
            for m in letters:
                units.append(('sandwich', (x, m), gl))
    else:
        # VERIF_SEED rotates which slice of the length-3 space a quick run
        # adds on top of the fixed core
        k = rep.seed % len(letters)
        for g in letters:
            units.append(('seq', (letters[k], g), 3, ((0, 0), (31, 0))))
        # fixed core of length 3: every group-level option, then any option,
        # then every group-level option again (re-toggling a group after one
        # of its mutators was set individually)
        glevel = ['--disable-all'] + [x for x in letters if x[2:] in groups
                                      or x[5:] in groups]
        for x in glevel:
            if x == letters[k]:
                continue
            for m in letters:
                units.append(('sandwich', (x, m), glevel))
    parts = common.pmap(run_unit, units, init=_init, chunksize=2)
    for p in parts:
        rep.merge(p)
    traced_runs(rep)
    rep.set('alphabet', len(letters))
    rep.set(
        'rule',
        f'all option sequences of length <= 2 over the {len(letters)}-letter '
        'alphabet generated from the mutator registry (every --<m>, --no-<m>,'
        ' --<group>, --no-<group>, --disable-all) x inputs declaring subsets '
        '(length <= 1: all 32 subsets; length 2: 12 subsets quick / 32 thorough) '
        'of {arithmetic,bv,datatypes,fp,strings} (+ alternative '
        'declaration forms); length 3: thorough - all triples starting with a group-level option or every 6th letter; quick - the slice starting '
        'with letter VERIF_SEED mod alphabet plus all (group-level, any, group-level) triples in quick. distinct_nontrivial = '
        'cases whose expected enabled set differs from "all mutators"')
    rep.set('exhaustive', True)
    rep.assume(
        'fold + detection model in checks/c14.py',
        '"declares something of a theory" = a declare-const/declare-fun/'
        'define-fun/define-sort whose (result) sort mentions the theory, or a'
        ' datatype declaration; functions that mention a theory only in a '
        'parameter sort are not generated')
    return rep.finish()


def replay(rec):
    _init()
    r = rec['record']
    print(r['brief'])
    seq = tuple(r.get('seq', []))
    if not seq:
        return 1
    part = run_unit(('seq', seq[0], len(seq), tuple((m, 0) for m in range(32))))
    hits = [v for v in part['violations'] if tuple(v[1].get('seq', [])) == seq]
    for sig, recd, kf in hits[:5]:
        print('FAIL', recd['brief'])
    return 1 if hits else 0
