"""C15 - every proposed simplification is applicable and lexically closed
(GRAPH engine: every proposal at every node of every explored state)."""
import os

import re

from .. import common, graph, seeds, sexp

PROP = 'C15'
NUMERIC = re.compile(r'^[0-9]+(\.[0-9]+)?$')
_scratch = None


def _init():
    global _scratch
    common.import_ddsmt()
    graph.Meter.install()
    _scratch = os.path.join(common.scratch_root(),
                            f'ddv-c15-{os.getpid()}.smt2')


def render(exprs, mode):
    from ddsmt import nodeio, options
    a = options.args()
    a.pretty_print = (mode == 'pretty')
    a.wrap_lines = (mode == 'wrap')
    try:
        if mode == 'checking':
            nodeio.write_smtlib_for_checking(_scratch, exprs)
            with open(_scratch) as f:
                return f.read()
        return nodeio.write_smtlib_to_str(exprs)
    finally:
        a.pretty_print = False
        a.wrap_lines = False


BINDERS = ('let', 'forall', 'exists')


def declared_symbols(forest):
    """Symbols declared / defined / bound anywhere in a nested-list forest."""
    out = set()

    def bound(t):
        if isinstance(t, str):
            return
        if t and isinstance(t[0], str) and t[0] in BINDERS and len(t) > 1 \
                and not isinstance(t[1], str):
            for v in t[1]:
                if not isinstance(v, str) and v and isinstance(v[0], str):
                    out.add(v[0])
        for c in t:
            bound(c)

    for cmd in forest:
        if isinstance(cmd, str) or not cmd or not isinstance(cmd[0], str):
            continue
        h = cmd[0]
        arity = {'declare-const': 3, 'declare-fun': 4, 'define-fun': 5,
                 'declare-sort': 3, 'define-sort': 4, 'define-fun-rec': 5}
        # only a well-formed declaration declares something
        if h in arity and len(cmd) == arity[h] and isinstance(cmd[1], str):
            out.add(cmd[1])
            if h.startswith('define-fun') and len(cmd) > 2 and not \
                    isinstance(cmd[2], str):
                for v in cmd[2]:
                    if not isinstance(v, str) and v and isinstance(v[0], str):
                        out.add(v[0])
        if h == 'define-funs-rec' and len(cmd) > 1 and not isinstance(
                cmd[1], str):
            for f in cmd[1]:
                if not isinstance(f, str) and f and isinstance(f[0], str):
                    out.add(f[0])
        if h in ('declare-datatype', 'declare-datatypes'):
            for leaf in sexp.flat_tokens(cmd[1:]):
                if leaf not in '()':
                    out.add(leaf)
        bound(cmd)
    return out


def leaves(tree):
    if isinstance(tree, str):
        yield tree
    else:
        for c in tree:
            yield from leaves(c)


def judge(part, state_list, state_syms, state_ids, state_keys, p, depth,
          modes):
    name = p.mutator
    common.pcount(part, 'proposals')

    def fail(kind, detail, kf=None):
        node = sexp.serialize(sexp.node_to_list(p.node))[:80] \
            if p.node is not None else ''
        common.pviolation(
            part, f'{kind}|{name}|{node[:30]}', {
                'brief': f'{kind}: {name} ({p.kind}) at node {node!r}: '
                         f'{detail}; state: '
                         f'{sexp.serialize_all(state_list)[:300]!r}',
                'state': sexp.serialize_all(state_list), 'mutator': name
            }, kf=kf)

    if p.error is not None:
        stage, err = p.error
        if stage == 'apply':
            fail('apply-error', f'{type(err).__name__}: {err}')
        elif stage == 'budget':
            common.pcount(part, 'budget_exceeded')
        else:
            common.pcount(part, 'mutator_exceptions_contained')
        return
    if p.keys is None:
        return
    for k in p.keys:
        if isinstance(k, int):
            if k not in state_ids:
                fail('foreign-node', f'simplification refers to node id {k} '
                     'which is not in the input')
        else:
            if sexp.serialize(sexp.node_to_list(k)) not in state_keys:
                fail('foreign-key', f'structural key {k} does not occur in '
                     'the input')
    res = p.result
    if res is None:
        return
    try:
        tree = sexp.node_to_list(res)
    except Exception as e:  # noqa
        fail('result-not-a-node-list', f'{type(e).__name__}: {e}: {res!r}')
        return
    bad_leaf = next((l for l in leaves(tree)
                     if not sexp.is_single_token(sexp.strip_comment(l))
                     and l != ''), None)
    if bad_leaf is not None:
        fail('leaf-is-not-a-single-token', f'leaf {bad_leaf!r}')
        return
    if any(l == '' for l in leaves(tree)):
        fail('empty-leaf', 'result contains a leaf with empty text')
        return
    # a leaf that starts with a digit is read as a numeral / decimal; if
    # more follows, a conforming reader sees two tokens (1b = 1 b).  Only
    # leaves the proposal brought in are judged.
    old = set(leaves(state_list))
    glued = next((l for l in leaves(tree)
                  if l[0].isdigit() and l not in old and
                  not NUMERIC.match(l)), None)
    if glued is not None:
        # KF-C15-4: ArithmeticSimplifyConstant drops the last digit of d.f
        # also when it is the only fractional digit (1.5 -> "1.")
        kf = None
        if name == 'ArithmeticSimplifyConstant' and \
                re.match(r'^[0-9]+\.$', glued) and \
                any(l.startswith(glued) and NUMERIC.match(l) and
                    len(l) == len(glued) + 1 for l in old):
            kf = 'arith-decimal-trailing-dot'
        fail('leaf-is-not-a-single-token', f'leaf {glued!r} is a numeral '
             'followed by further characters', kf=kf)
        return
    want = sexp.norm(tree)
    from ddsmt import nodeio
    for mode in modes:
        try:
            text = render(res, mode)
        except Exception as e:  # noqa
            fail('render-error', f'{mode}: {type(e).__name__}: {e}')
            return
        try:
            ref = sexp.read(text)
        except sexp.LexError as e:
            fail('rendering-not-readable', f'{mode}: {e}: {text[:200]!r}')
            return
        if ref != want:
            fail('reference-reader-disagrees',
                 f'{mode}: file reads as {sexp.serialize_all(ref)[:200]!r},'
                 f' memory has {sexp.serialize_all(want)[:200]!r}')
            return
        try:
            back = sexp.norm(sexp.node_to_list(list(
                nodeio.parse_smtlib(text))))
        except Exception as e:  # noqa
            fail('reparse-error', f'{mode}: {type(e).__name__}: {e}')
            return
        if back != want:
            fail('reparse-differs', f'{mode}: {text[:200]!r}')
            return
        common.pcount(part, 'renderings_reread')
    # fresh declarations
    for decl in p.fresh or []:
        d = sexp.node_to_list(decl)
        if isinstance(d, str) or len(d) < 2 or not isinstance(d[1], str):
            fail('fresh-declaration-malformed', f'{d!r}')
            continue
        sym = d[1]
        common.pcount(part, 'fresh_declarations')
        if sym in state_syms:
            fail('fresh-symbol-already-declared',
                 f'declares {sym!r}, which the input already declares')
        pos_decl = None
        first_use = None
        for i, cmd in enumerate(tree):
            if cmd == d and pos_decl is None:
                pos_decl = i
                continue
            if first_use is None and sym in set(leaves(cmd)):
                first_use = i
        if pos_decl is None:
            fail('fresh-declaration-missing', f'{d!r} not in the result')
        elif first_use is not None and first_use < pos_decl:
            fail('fresh-declaration-after-use',
                 f'{sym!r} declared at command {pos_decl}, used at '
                 f'{first_use}')


def run_unit(unit):
    name, text, argv, depth, cap, modes = unit
    part = common.part_result()
    cache = {}

    def on_proposal(s, exprs, d, p):
        if cache.get('exprs') is not exprs:
            lst = sexp.node_to_list(exprs)
            ids = set()
            keys = set()
            stack = list(exprs)
            while stack:
                n = stack.pop()
                ids.add(n.id)
                keys.add(sexp.serialize(sexp.node_to_list(n)))
                if not n.is_leaf():
                    stack.extend(n.data)
            cache.update(exprs=exprs, lst=lst, syms=declared_symbols(lst),
                         ids=ids, keys=keys)
        m = modes if (p.kind.startswith('ddmin') is False) else modes[:1]
        judge(part, cache['lst'], cache['syms'], cache['ids'], cache['keys'],
              p, d, m)

    s = graph.Search(argv, depth=depth, max_states=cap,
                     on_proposal=on_proposal)
    try:
        common.reset_ids(0)
        s.run(graph.parse(text))
    except Exception as e:  # noqa
        common.pcount(part, 'units_aborted_by_exception')
    common.pcount(part, 'states', len(s.adj))
    common.pcount(part, 'transitions', s.n_transitions)
    if s.capped:
        part['caps'].append(f'{name}: state cap {cap} hit')
    if not part['samples']:
        part['samples'].append({'seed': name, 'states': len(s.adj),
                                'proposals': part['counts'].get(
                                    'proposals', 0)})
    return part


def plan(tier, seed=0):
    units = []
    depth = 3 if tier == 'thorough' else 2
    cap = 400 if tier == 'thorough' else 200
    modes = ['checking', 'default', 'pretty', 'wrap']
    for name, text in seeds.seeds(tier, seed):
        # larger inputs have more proposals per state: scale the state cap
        c = cap if len(text) < 160 else max(30, cap * 160 // len(text))
        units.append((name, text, [], depth, c, modes))
        units.append((name + '/dec', text,
                      ['--replace-by-variable-mode', 'dec'], 1, 40,
                      modes[:2]))
    units.sort(key=lambda u: -len(u[1]))
    return units


def main(tier):
    rep = common.Reporter(PROP, 'model_checking', tier)
    units = plan(rep.tier, rep.seed)
    parts = common.pmap(run_unit, units, init=_init)
    for p in parts:
        rep.merge(p)
    from .. import conform
    sd = [x for x in seeds.seeds(rep.tier, rep.seed)
          if not x[0].startswith('typed')]
    conform.graph_conformance(rep, sd[(rep.seed + 3) % 9::9]
                              if rep.tier != 'thorough' else sd[1::4],
                              ('hierarchical', ))
    rep.set('traces_validated_against_impl',
            rep.coverage.get('traces_validated_against_impl', 0))
    rep.set('evaluations', rep.coverage.get('proposals', 0))
    rep.set('distinct_nontrivial', rep.coverage.get('states', 0))
    rep.set('seeds', len(seeds.seeds(rep.tier, rep.seed)))
    rep.set('exhaustive', True)
    rep.set(
        'rule', 'every proposal of every enabled mutator (hierarchical '
        'single proposals and ddmin group steps) at every node of every '
        'state within depth 1 (thorough 2) of every seed, all mutators '
        'enabled: keys refer to the state, apply_simp + reduplicate do not '
        'raise, every leaf of the result is one token, the 4 renderings are '
        're-read by ddSMT and by the reference reader and equal the tree in '
        'memory, fresh declarations are new and precede their first use')
    rep.assume('reference reader ddv/sexp.py', 'seed family ddv/seeds.py',
               'declared-symbol scan in checks/c15.py')
    return rep.finish()


def replay(rec):
    _init()
    r = rec['record']
    print(r['brief'])
    part = run_unit(('replay', r['state'] + '\n', [], 1, 2,
                     ['checking', 'default', 'pretty', 'wrap']))
    sigs = [v[0] for v in part['violations']]
    for v in part['violations'][:5]:
        print('FAIL', v[1]['brief'][:300])
    return 1 if any(s.split('|')[:2] == rec['signature'].split('|')[:2]
                    for s in sigs) else 0
