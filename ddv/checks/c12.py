"""C12 - tree equality, hashing, copying, pickling, traversal agree with
structure.

ENUM: all trees <= N nodes over 7 Unicode leaf representatives, all sharing
patterns on a 2-leaf alphabet, all ordered pairs of small trees; deepcopy,
pickle, round trip through a real fork-based Pool; traversals against a
nested-list model.  tiny SCHED: all interleavings of 2 x 2 id allocations of
the real Node.__get_id over an instrumented counter.  DESIGN 3/C12.
"""
import copy
import itertools
import multiprocessing
import pickle

from .. import baton, common, explore, sexp

PROP = 'C12'
LEAVES = ['a', 'b', '', 'é', '\U0001D538', '(', 'L']
LEAVES2 = ['a', 'b']


def _init():
    common.import_ddsmt(private_ids=False)


def _init_worker():
    # the enumeration workers do not need the cross-process counter (and 16
    # processes contending for its lock are slow); the pool round trip and
    # the interleaving exploration in the main process use the real one
    common.import_ddsmt(private_ids=True)


# --------------------------------------------------------------------------
# helpers


def build_shared(tree, Node, share):
    """Build Node objects; ``share`` maps canonical text of a subtree to True
    if equal subtrees are to be the same object."""
    memo = {}

    def go(t):
        key = sexp.serialize(t) if not isinstance(t, str) else 'L:' + t
        if share.get(key) and key in memo:
            return memo[key]
        n = Node(t) if isinstance(t, str) else Node(*[go(c) for c in t])
        if share.get(key):
            memo[key] = n
        return n

    return go(tree)


def positions_ids(node):
    """[(path, id, hash)] in pre-order."""
    out = []
    stack = [((), node)]
    while stack:
        p, n = stack.pop()
        out.append((p, n.id, n.hash))
        if not isinstance(n.data, str):
            for i in reversed(range(len(n.data))):
                stack.append((p + (i, ), n.data[i]))
    return out


def m_dfs(tree, md, is_node):
    """Model of nodes.dfs on nested lists: returns list of subtrees."""
    out = []

    def go(t, d):
        out.append(t)
        if (not md or d < md) and not isinstance(t, str):
            for c in t:
                go(c, d + 1)

    if is_node:
        out.append(tree)
        items = [] if isinstance(tree, str) else tree
    else:
        items = tree
    for t in items:
        go(t, 1)
    return out


def m_bfs(tree, md, is_node):
    out = []
    if is_node:
        out.append(tree)
        items = [] if isinstance(tree, str) else tree
    else:
        items = tree
    queue = [(1, t) for t in items]
    while queue:
        d, t = queue.pop(0)
        out.append(t)
        if (not md or d < md) and not isinstance(t, str):
            queue.extend((d + 1, c) for c in t)
    return out


def fail(part, kind, tree, detail=''):
    text = sexp.serialize(tree) if not (isinstance(tree, list) and tree and
                                        isinstance(tree[0], tuple)) else \
        repr(tree)
    common.pviolation(
        part, f'{kind.split(":")[0]}|{kind}|{text[:60]}', {
            'brief': f'{kind}: {text!r} {detail}',
            'tree': tree,
            'kind': kind
        })


# --------------------------------------------------------------------------
# per-tree checks


def check_tree(part, tree, Node, nodes):
    n = sexp.list_to_node(tree, Node)
    common.pcount(part, 'evaluations')
    # structure round trip
    if sexp.node_to_list(n) != tree:
        fail(part, 'construct', tree)
        return
    # eq / hash with an independently built copy
    m = sexp.list_to_node(tree, Node)
    if not (n == m) or hash(n) != hash(m) or (n != m):
        fail(part, 'eq:equal-trees-differ', tree)
    # str / None comparisons
    if isinstance(tree, str):
        if not (n == tree) or (n == tree + 'x'):
            fail(part, 'eq:str', tree)
    else:
        if n == sexp.serialize(tree):
            fail(part, 'eq:nonleaf-equals-str', tree)
        if tree == [] and not (n == tuple()):
            fail(part, 'eq:empty-tuple', tree)
    if n == None:  # noqa: E711
        fail(part, 'eq:none', tree)
    # deepcopy
    c = copy.deepcopy(n)
    ids_n = [i for _, i, _ in positions_ids(n)]
    ids_c = [i for _, i, _ in positions_ids(c)]
    if sexp.node_to_list(c) != tree or not (c == n) or hash(c) != hash(n):
        fail(part, 'deepcopy:not-equal', tree)
    if set(ids_n) & set(ids_c) or len(set(ids_c)) != len(ids_c):
        fail(part, 'deepcopy:ids-not-fresh', tree, f'{ids_n} {ids_c}')
    # pickle
    try:
        p = pickle.loads(pickle.dumps(n))
        if sexp.node_to_list(p) != tree or positions_ids(p) != \
                positions_ids(n) or not (p == n):
            fail(part, 'pickle:differs', tree)
    except Exception as e:  # noqa
        fail(part, f'pickle:exception:{type(e).__name__}', tree, repr(e))
    # traversals
    check_traversals(part, tree, n, True, nodes)


def check_traversals(part, tree, obj, is_node, nodes):
    depth_limit = 5
    for md in [None] + list(range(1, depth_limit)):
        for name, fn, model in (('dfs', nodes.dfs, m_dfs), ('bfs', nodes.bfs,
                                                            m_bfs)):
            got = [sexp.node_to_list(x) for x in fn(obj, md)]
            exp = model(tree, md, is_node)
            if got != exp:
                fail(part, f'traversal:{name}:max_depth={md}', tree,
                     f'got {got} expected {exp}')
        got = [
            sexp.node_to_list(x)
            for x in nodes.filter_nodes(obj, lambda x: not x.is_leaf(), md)
        ]
        exp = [t for t in m_dfs(tree, md, is_node) if not isinstance(t, str)]
        if got != exp:
            fail(part, f'traversal:filter_nodes:max_depth={md}', tree)
    allnodes = m_dfs(tree, None, False if not is_node else True)
    if is_node:
        total = len(allnodes) - 0
        # m_dfs with is_node yields root + descendants
        n_all = sexp.count_nodes(tree)
        n_exprs = sum(1 for t in m_dfs(tree, None, True)
                      if not isinstance(t, str))
    else:
        n_all = sum(sexp.count_nodes(t) for t in tree)
        n_exprs = sum(1 for t in m_dfs(tree, None, False)
                      if not isinstance(t, str))
    if nodes.count_nodes(obj) != n_all:
        fail(part, 'traversal:count_nodes', tree,
             f'{nodes.count_nodes(obj)} != {n_all}')
    if nodes.count_exprs(obj) != n_exprs:
        fail(part, 'traversal:count_exprs', tree,
             f'{nodes.count_exprs(obj)} != {n_exprs}')
    # exactly once (identity) when unlimited
    seen = [id(x) for x in nodes.dfs(obj)]
    if len(seen) != len(set(seen)) or len(seen) != n_all:
        fail(part, 'traversal:dfs-not-exactly-once', tree)
    seen = [id(x) for x in nodes.bfs(obj)]
    if len(seen) != len(set(seen)) or len(seen) != n_all:
        fail(part, 'traversal:bfs-not-exactly-once', tree)


def run_unit(unit):
    from ddsmt import nodes
    from ddsmt.nodes import Node
    kind = unit[0]
    part = common.part_result()
    if kind == 'trees':
        _, nn, idx = unit
        shp = list(sexp.shapes(nn))[idx]
        k = sexp.count_leaves(shp)
        for combo in itertools.product(LEAVES, repeat=k):
            tree = sexp.fill(shp, iter(combo))
            check_tree(part, tree, Node, nodes)
            common.pcount(part, 'distinct_nontrivial')
        part['samples'].append(
            {'tree': sexp.serialize(sexp.fill(shp, iter(LEAVES * 3)))})
    elif kind == 'pairs':
        _, nmax, first = unit
        all_trees = list(sexp.trees(nmax, LEAVES2 + ['']))
        a = all_trees[first]
        na = sexp.list_to_node(a, Node)
        for b in all_trees:
            nb = sexp.list_to_node(b, Node)
            common.pcount(part, 'evaluations')
            exp = (a == b)
            if (na == nb) != exp or (nb == na) != exp or (na != nb) == exp:
                fail(part, 'eq:pair', [a, b], f'expected {exp}')
            if exp and hash(na) != hash(nb):
                fail(part, 'hash:equal-trees-different-hash', [a, b])
            if exp:
                common.pcount(part, 'equal_pairs')
            else:
                common.pcount(part, 'distinct_nontrivial')
    elif kind == 'forests':
        _, total = unit
        for forest in sexp.forests(total, LEAVES2, max_trees=3):
            objs = [sexp.list_to_node(t, Node) for t in forest]
            common.pcount(part, 'evaluations')
            common.pcount(part, 'distinct_nontrivial')
            check_traversals(part, forest, objs, False, nodes)
    elif kind == 'sharing':
        _, nn = unit
        for tree in sexp.trees_exact(nn, LEAVES2):
            subs = {}
            for p in sexp.positions(tree):
                t = sexp.at(tree, p)
                key = sexp.serialize(t) if not isinstance(t, str) else \
                    'L:' + t
                subs[key] = subs.get(key, 0) + 1
            rep = [k for k, v in subs.items() if v > 1]
            for mask in itertools.product([False, True], repeat=len(rep)):
                if not any(mask):
                    continue
                share = dict(zip(rep, mask))
                n = build_shared(tree, Node, share)
                common.pcount(part, 'evaluations')
                common.pcount(part, 'distinct_nontrivial')
                common.pcount(part, 'dags')
                m = sexp.list_to_node(tree, Node)
                if not (n == m) or hash(n) != hash(m):
                    fail(part, 'eq:dag-vs-tree', tree, repr(share))
                c = copy.deepcopy(n)
                ids_c = [i for _, i, _ in positions_ids(c)]
                if len(set(ids_c)) != len(ids_c) or not (c == n):
                    fail(part, 'deepcopy:dag-ids-not-distinct', tree,
                         repr(share))
                p = pickle.loads(pickle.dumps(n))
                if positions_ids(p) != positions_ids(n) or \
                        sexp.node_to_list(p) != tree:
                    fail(part, 'pickle:dag', tree, repr(share))
                cnt = nodes.count_nodes(n)
                if cnt != sexp.count_nodes(tree):
                    fail(part, 'traversal:count_nodes-dag', tree)
    return part


# --------------------------------------------------------------------------
# real fork-based pool round trip


def _pool_worker(batch):
    """Runs in a pool worker: receives trees, returns what it saw plus a tree
    it built itself and a deep copy."""
    from ddsmt.nodes import Node
    out = []
    for n in batch:
        seen = positions_ids(n)
        mine = Node('w', Node('x'), Node(n.data if isinstance(n.data, str)
                                         else 'y'))
        cp = copy.deepcopy(n)
        out.append((n, seen, mine, positions_ids(mine), cp,
                    positions_ids(cp)))
    return out


def pool_roundtrip(rep, trees):
    from ddsmt.nodes import Node
    ctx = multiprocessing.get_context('fork')
    # only trees that survive an in-process pickle round trip are sent (a
    # worker that cannot unpickle its task makes the real Pool hang; those
    # trees are already reported by the in-process check)
    ok_trees = []
    for t in trees:
        try:
            n = sexp.list_to_node(t, Node)
            if sexp.node_to_list(pickle.loads(pickle.dumps(n))) == t:
                ok_trees.append(t)
        except Exception:  # noqa
            pass
    rep.count('pool_skipped_unpicklable', len(trees) - len(ok_trees))
    trees = ok_trees
    objs = [sexp.list_to_node(t, Node) for t in trees]
    sent = [positions_ids(n) for n in objs]
    parent_ids = set(i for s in sent for _, i, _ in s)
    batches = [objs[i:i + 50] for i in range(0, len(objs), 50)]
    worker_ids = []
    with ctx.Pool(2) as pool:
        results = []
        it = pool.imap(_pool_worker, batches)
        for b, batch in enumerate(batches):
            # the parent keeps allocating ids while workers do
            extra = [Node('p', Node('q')) for _ in range(5)]
            for e in extra:
                parent_ids.update(i for _, i, _ in positions_ids(e))
            try:
                results.append(it.next(timeout=300))
            except multiprocessing.TimeoutError:
                rep.violation('pool|no-answer-from-worker|', {
                    'brief': f'batch {b} sent to a pool worker never came '
                             f'back (300 s)'})
                pool.terminate()
                return
    k = 0
    for batch_res in results:
        for back, seen, mine, mine_ids, cp, cp_ids in batch_res:
            tree = trees[k]
            orig = objs[k]
            rep.count('evaluations')
            rep.count('pool_roundtrips')
            if seen != sent[k]:
                rep.violation(f'pool|to-worker-ids-or-hash-differ|{k}', {
                    'brief': f'tree {sexp.serialize(tree)!r}: ids/hashes '
                             f'seen in the worker differ from the parent\'s',
                    'tree': tree})
            if positions_ids(back) != sent[k] or not (back == orig) or \
                    sexp.node_to_list(back) != tree:
                rep.violation(f'pool|from-worker-differs|{k}', {
                    'brief': f'tree {sexp.serialize(tree)!r} came back '
                             f'different from the worker', 'tree': tree})
            wids = [i for _, i, _ in mine_ids] + [i for _, i, _ in cp_ids]
            worker_ids.extend(wids)
            if sexp.node_to_list(cp) != tree:
                rep.violation(f'pool|worker-deepcopy-differs|{k}', {
                    'brief': f'deepcopy made in a worker differs for '
                             f'{sexp.serialize(tree)!r}', 'tree': tree})
            k += 1
    dup = len(worker_ids) - len(set(worker_ids))
    clash = set(worker_ids) & parent_ids
    if dup or clash:
        rep.violation(
            'pool|ids-not-unique-across-processes|', {
                'brief': f'{dup} duplicate ids among worker-created nodes, '
                         f'{len(clash)} ids used by both a worker and the '
                         f'parent (e.g. {sorted(clash)[:5]})'
            })
    # a worker-created node with a colliding id would compare equal to a
    # different parent tree: check == directly on a few
    for batch_res in results[:3]:
        for back, seen, mine, mine_ids, cp, cp_ids in batch_res[:10]:
            for o in objs[:50]:
                if (mine == o) and sexp.node_to_list(mine) != \
                        sexp.node_to_list(o):
                    rep.violation('pool|eq-across-processes|', {
                        'brief': f'worker-built {mine} == parent {o}'})


# --------------------------------------------------------------------------
# all interleavings of id allocation


def id_interleavings(rep, nthreads, nalloc):
    from ddsmt.nodes import Node
    counter_name = '_Node__ID_COUNTER'
    getter = getattr(Node, '_Node__get_id', None)
    orig = Node.__dict__.get(counter_name)
    if orig is None or getter is None or not hasattr(orig, 'get_lock'):
        rep.set('id_interleavings', 'skipped: Node has no lock-protected '
                'shared counter to instrument')
        return
    outcomes = set()
    execs = [0]

    class Value:
        """Instrumented equivalent of multiprocessing.Value('i')."""

        def __init__(self, sched):
            self.s = sched
            self._v = 0
            self._lock = sched.Lock()

        def get_lock(self):
            return self._lock

        @property
        def value(self):
            self.s.point('get')
            return self._v

        @value.setter
        def value(self, v):
            self.s.point('set')
            self._v = v

    def run(ch):
        s = baton.Scheduler(ch)
        setattr(Node, counter_name, Value(s))

        def body(sched):
            return [Node._Node__get_id() for _ in range(nalloc)]

        try:
            res = s.run([body] * nthreads)
        finally:
            setattr(Node, counter_name, orig)
        return tuple(tuple(r) for r in res)

    def judge(part, ch, out):
        common.pcount(part, 'n')
        part.setdefault('outs', set()).add(out)
        flat = [i for r in out for i in r]
        if len(flat) != len(set(flat)):
            common.pviolation(
                part, 'ids|duplicate-id-under-interleaving|', {
                    'brief': f'interleaving of {nthreads} processes x '
                             f'{nalloc} allocations hands out ids {out}',
                    'schedule': ch.vector()
                })

    budgets = {'sched': 10**6}
    root = common.part_result()
    open_, n0 = explore.frontier(run, budgets,
                                 lambda ch, o: judge(root, ch, o), want=64)

    def subtree(prefix):
        part = common.part_result()
        explore.explore(run, budgets, lambda ch, o: judge(part, ch, o),
                        roots=[prefix])
        return part

    parts = [root] + common.pmap(subtree, open_)
    n = 0
    for p in parts:
        n += p['counts'].get('n', 0)
        outcomes |= p.get('outs', set())
        for sig, rec, kf in p['violations']:
            rep.violation(sig, rec, kf)
    rep.count('evaluations', n)
    rep.set(f'id_interleavings_{nthreads}x{nalloc}', {
        'threads': nthreads, 'allocations_each': nalloc, 'executions': n,
        'distinct_outcomes': len(outcomes), 'exhaustive': True})
    rep.count('distinct_nontrivial', len(outcomes))


def deep_trees(rep):
    """The tree functions are written without recursion: trees deeper than
    the interpreter's recursion limit must work like any other."""
    import sys
    from ddsmt import nodes
    from ddsmt.nodes import Node
    depth = 3 * sys.getrecursionlimit()

    def chain(leaf):
        n = Node(leaf)
        for _ in range(depth):
            n = Node('f', n)
        return n

    def comb():
        n = Node('x')
        for i in range(depth // 2):
            n = Node('g', Node('y'), n, Node('z'))
        return n

    for name, mk in (('chain', lambda: chain('a')), ('comb', comb)):
        a, b = mk(), mk()
        ops = [
            ('==', lambda: (a == b) is True),
            ('!=', lambda: (a != b) is False),
            ('== other leaf', lambda: name != 'chain' or
             (a == chain('b')) is False),
            ('hash', lambda: hash(a) == hash(b)),
            ('deepcopy', lambda: copy.deepcopy(a) == a),
            ('pickle', lambda: pickle.loads(pickle.dumps(a)) == a),
            ('dfs', lambda: sum(1 for _ in nodes.dfs(a)) ==
             nodes.count_nodes(a)),
            ('bfs', lambda: sum(1 for _ in nodes.bfs(a)) ==
             nodes.count_nodes(a)),
            ('count_exprs', lambda: nodes.count_exprs(a) > depth // 2 - 1),
            ('reduplicate', lambda: nodes.reduplicate([a, a])[1] == a),
            ('substitute', lambda: nodes.substitute(
                a, {Node('a'): Node('b')}) is not None),
        ]
        for opname, fn in ops:
            rep.count('evaluations')
            rep.count('deep_tree_operations')
            try:
                ok = fn()
                err = None
            except BaseException as e:  # noqa
                ok, err = False, f'{type(e).__name__}: {str(e)[:80]}'
            if not ok:
                rep.violation(f'deep|{opname}|{name}', {
                    'brief': f'{opname} on a {name} tree of depth {depth}: '
                             f'{err or "wrong result"}'})


def main(tier):
    rep = common.Reporter(PROP, 'exploration', tier)
    _init()
    ntree = 6 if rep.tier == 'thorough' else 5
    npair = 5 if rep.tier == 'thorough' else 4
    nshare = 7 if rep.tier == 'thorough' else 6
    units = []
    for nn in range(1, ntree + 1):
        for i, _ in enumerate(sexp.shapes(nn)):
            units.append(('trees', nn, i))
    npairs_trees = len(list(sexp.trees(npair, LEAVES2 + [''])))
    for i in range(npairs_trees):
        units.append(('pairs', npair, i))
    for total in range(0, 6 if rep.tier == 'quick' else 7):
        units.append(('forests', total))
    for nn in range(2, nshare + 1):
        units.append(('sharing', nn))
    parts = common.pmap(run_unit, units, init=_init_worker, chunksize=4)
    for p in parts:
        rep.merge(p)
    import time
    rep.set('t_enum_s', round(time.time() - rep.t0, 1))
    # real pool round trip of every tree <= 4 nodes over the full alphabet
    pool_roundtrip(rep, list(sexp.trees(4 if rep.tier == 'quick' else 5,
                                        LEAVES)))
    rep.set('t_pool_s', round(time.time() - rep.t0, 1))
    deep_trees(rep)
    id_interleavings(rep, 2, 2)
    if rep.tier == 'thorough':
        id_interleavings(rep, 3, 1)
    rep.set(
        'rule',
        f'all trees <= {ntree} nodes over 7 leaf texts (ASCII, empty, '
        'accented, non-BMP, "(" and "L" = the pickle markers): ==, hash, '
        'str/None/() comparison, deepcopy, pickle, dfs/bfs/filter_nodes '
        'with every max_depth, counts; all ordered pairs of trees <= '
        f'{npair} nodes over {{a,b,""}}; all forests <= 5 nodes; all '
        f'sharing patterns of trees <= {nshare} nodes; every tree <= 4 '
        'nodes through a real fork-based Pool(2) and back; all '
        'interleavings of 2x2 id allocations. distinct_nontrivial = '
        'distinct trees / unequal pairs / DAGs / distinct interleaving '
        'outcomes')
    rep.set('exhaustive', True)
    rep.assume('nested-list models in checks/c12.py',
               'fork start method; same PYTHONHASHSEED in parent and workers')
    return rep.finish()


def replay(rec):
    _init()
    from ddsmt import nodes
    from ddsmt.nodes import Node
    part = common.part_result()
    r = rec['record']
    if 'tree' in r and r.get('kind', '').split(':')[0] in (
            'construct', 'eq', 'deepcopy', 'pickle', 'traversal'):
        check_tree(part, r['tree'], Node, nodes)
    for sig, recd, kf in part['violations']:
        print('FAIL', recd['brief'])
    print(r.get('brief'))
    return 1 if part['violations'] else 0
