"""C07 - rendering and re-parsing is the identity, in every output mode.

Bounded-exhaustive: all trees with <= N nodes over an alphabet of lexical
classes, all forests of <= 2 such trees (smaller N), plus a column sweep that
puts every critical leaf at every column around the wrap width.  Each text is
parsed by ddSMT and rendered by the four renderers; oracle = independent
tokenizer + re-parse.  See DESIGN.md section 3, C07.
"""
import itertools
import os

from .. import common, sexp

PROP = 'C07'

LONG80 = 'x' * 80
LONG120 = 'y' * 120
LONGHYP = '-'.join(['abcdefgh'] * 10)  # 89 characters with hyphens

LEAVES = {
    'sym': 'a',
    'hyp': 'a-b',
    'kw': ':k',
    'num': '12',
    'bin': '#b01',
    'long80': LONG80,
    'long120': LONG120,
    'longhyp': LONGHYP,
    'str_sp': '"a b"',
    'str_2sp': '"a  b"',
    'str_open': '"("',
    'str_close': '")"',
    'str_semi': '";"',
    'str_nl': '"x\ny"',
    'str_dq': '"a""b"',
    'str_empty': '""',
    'str_parens_sp': '"( a )"',
    'q_sp': '|q r|',
    'q_nl': '|q\nr|',
    'q_semi': '|;|',
    'q_open': '|(|',
    'q_parens_sp': '|( a )|',
    'comment': ';c',
}
CLASS_OF = {v: k for k, v in LEAVES.items()}
# reduced alphabet for trees with 6 nodes (thorough tier)
LEAVES_6 = ['sym', 'kw', 'long80', 'longhyp', 'str_sp', 'str_open', 'str_nl',
            'str_dq', 'q_sp', 'q_nl', 'q_semi', 'comment']
MODES = ['checking', 'default', 'pretty', 'wrap']


def to_text(tree):
    """Harness serializer: one line, a comment ends its line."""
    out = []

    def go(t):
        if isinstance(t, str):
            out.append(t)
            out.append('\n' if t.startswith(';') else ' ')
        else:
            out.append('(')
            for x in t:
                go(x)
            out.append(') ')

    go(tree)
    return ''.join(out)


def forest_text(forest):
    return '\n'.join(to_text(t) for t in forest) + '\n'


def abstract(tree):
    if isinstance(tree, str):
        return CLASS_OF.get(tree, 'p' if len(tree) <= 2 else 'tok')
    return '(' + ' '.join(abstract(x) for x in tree) + ')'


_scratch = None


def _init():
    global _scratch
    common.import_ddsmt()
    _scratch = os.path.join(common.scratch_root(), f'ddv-c07-{os.getpid()}.smt2')


def render(exprs, mode):
    from ddsmt import nodeio, options
    a = options.args()
    a.pretty_print = (mode == 'pretty')
    a.wrap_lines = (mode == 'wrap')
    try:
        if mode == 'checking':
            nodeio.write_smtlib_for_checking(_scratch, exprs)
            with open(_scratch) as f:
                return f.read()
        return nodeio.write_smtlib_to_str(exprs)
    finally:
        a.pretty_print = False
        a.wrap_lines = False


def check_text(text):
    """Return list of (mode, kind, detail) failures for one source text."""
    from ddsmt import nodeio
    fails = []
    exprs = list(nodeio.parse_smtlib(text))
    parsed = sexp.norm(sexp.node_to_list(exprs))
    src_tokens = [sexp.strip_comment(t) for t in sexp.token_texts(text)]
    if sexp.forest_tokens(parsed) != src_tokens:
        # reader disagreement: C08's business, do not judge renderers on it
        return [('parser', 'reader-disagrees', '')]
    for mode in MODES:
        try:
            out = render(exprs, mode)
        except Exception as e:  # noqa
            fails.append((mode, f'render-exception:{type(e).__name__}',
                          repr(e)))
            continue
        try:
            toks = [sexp.strip_comment(t) for t in sexp.token_texts(out)]
        except sexp.LexError as e:
            fails.append((mode, 'rendering-not-lexable', f'{e}: {out!r}'))
            continue
        if toks != src_tokens:
            fails.append((mode, 'token-sequence-differs', out))
            continue
        try:
            back = sexp.norm(sexp.node_to_list(list(nodeio.parse_smtlib(out))))
        except Exception as e:  # noqa
            fails.append((mode, f'reparse-exception:{type(e).__name__}', out))
            continue
        if back != parsed:
            fails.append((mode, 'reparse-differs', out))
    return fails


def record(part, text, fails, shape_abs):
    for mode, kind, detail in fails:
        sig = f'{mode}|{kind}|{shape_abs}'
        common.pviolation(
            part, sig, {
                'brief': f'{mode}: {kind} for source {text[:200]!r}: '
                         f'{detail[:300]!r}',
                'text': text,
                'mode': mode,
                'kind': kind,
                'detail': detail
            })


def run_unit(unit):
    kind = unit[0]
    part = common.part_result()
    n = 0
    nt = 0
    if kind == 'trees':
        _, nnodes, shape_idx = unit
        shp = list(sexp.shapes(nnodes))[shape_idx]
        k = sexp.count_leaves(shp)
        alphabet = list(LEAVES.values()) if nnodes <= 5 else \
            [LEAVES[c] for c in LEAVES_6]
        for combo in itertools.product(alphabet, repeat=k):
            tree = sexp.fill(shp, iter(combo))
            text = to_text(tree) + '\n'
            n += 1
            if any(c not in ('a', '12', ':k') for c in combo) or k == 0:
                nt += 1
            fails = check_text(text)
            if fails:
                record(part, text, fails, abstract(tree))
            if n == 7 and len(part['samples']) < 1:
                part['samples'].append({'source': text})
    elif kind == 'forest':
        _, total, first_leaf = unit
        # forests of exactly two trees with `total` nodes; the first leaf of
        # the forest (or '()' marker) selects the slice
        for fs in sexp.forests_shapes(total):
            if len(fs) != 2:
                continue
            k = sum(sexp.count_leaves(s) for s in fs)
            if k == 0:
                if first_leaf != '()':
                    continue
                combos = [()]
            else:
                if first_leaf == '()':
                    continue
                combos = ((first_leaf, ) + rest for rest in itertools.product(
                    LEAVES.values(), repeat=k - 1))
            for combo in combos:
                it = iter(combo)
                forest = [sexp.fill(s, it) for s in fs]
                text = forest_text(forest)
                n += 1
                nt += 1
                fails = check_text(text)
                if fails:
                    record(part, text, fails,
                           ' '.join(abstract(t) for t in forest))
    elif kind == 'column':
        _, leafname = unit
        X = LEAVES[leafname]
        for k in range(0, 45):
            for shift in ('', 'pp ', 'ppp '):
                for after in ('', ' q', ' q r', ' "u v"'):
                    for depth in (0, 1):
                        body = '(f ' + shift + 'p ' * k + X + \
                            ('\n' if X.startswith(';') else '') + after + ')'
                        if depth:
                            body = '(assert ' + body + ')'
                        text = body + '\n'
                        n += 1
                        nt += 1
                        fails = check_text(text)
                        if fails:
                            col = len(body.split(X)[0])
                            record(part, text, fails,
                                   f'column:{leafname}:after={after!r}:'
                                   f'd{depth}:col{col}')
                        if k == 30 and shift == '' and after == ' q' and \
                                depth == 0:
                            part['samples'].append({'source': text})
    common.pcount(part, 'evaluations', n)
    common.pcount(part, 'distinct_nontrivial', nt)
    common.pcount(part, 'renderings_checked', n * len(MODES))
    return part


def plan(tier):
    ntree = 6 if tier == 'thorough' else 5
    nforest = 5 if tier == 'thorough' else 4
    units = []
    for nn in range(1, ntree + 1):
        for i, _ in enumerate(sexp.shapes(nn)):
            units.append(('trees', nn, i))
    for total in range(2, nforest + 1):
        for leaf in list(LEAVES.values()) + ['()']:
            units.append(('forest', total, leaf))
    for name in LEAVES:
        units.append(('column', name))
    return units, ntree, nforest


def main(tier):
    rep = common.Reporter(PROP, 'exploration', tier)
    units, ntree, nforest = plan(rep.tier)
    # biggest units first for load balance
    parts = common.pmap(run_unit, units, init=_init)
    for p in parts:
        rep.merge(p)
    rep.set(
        'rule',
        f'all trees with <= {ntree} nodes (empty lists included) over '
        f'{len(LEAVES)} lexical-class leaves ({len(LEAVES_6)} classes for trees '
        'with 6 nodes); all forests of two trees with '
        f'<= {nforest} nodes; column sweep: every leaf class at 135 prefix '
        'lengths x 4 continuations x 2 depths (start columns 3..95). Each '
        'source text is parsed by ddSMT and rendered by the 4 renderers; '
        'distinct_nontrivial = sources containing a literal, quoted symbol, '
        'comment, long token, empty list or more than one top-level '
        'expression (all sources are distinct by construction)')
    rep.set('exhaustive', True)
    rep.set('bounds', {'tree_nodes': ntree, 'forest_nodes': nforest,
                       'leaf_classes': len(LEAVES), 'modes': MODES})
    rep.assume(
        'reference tokenizer ddv/sexp.py', 'the source text is serialised by '
        'the harness and read by ddSMT; sources on which ddSMT\'s reader '
        'and the reference reader disagree are C08\'s business and skipped '
        'here (counted as violations of kind reader-disagrees)')
    return rep.finish()


def replay(rec):
    _init()
    text = rec['record']['text']
    fails = check_text(text)
    print('source:', repr(text))
    for f in fails:
        print('FAIL', f[0], f[1], repr(f[2])[:500])
    return 1 if fails else 0
