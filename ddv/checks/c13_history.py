"""History part of C13: node ids at every TaskGenerator / Producer
construction along all explored runs (SCHED engine)."""
from .. import common, oracles, scenarios as S, sched

SHARING = '''(declare-const x (_ BitVec 8))
(declare-const y (_ BitVec 8))
(declare-const z (_ BitVec 8))
(assert (= x (bvadd y z)))
(assert (let ((v (bvmul x y))) (bvult v (bvadd v x))))
(assert (= (bvnot x) (bvnot (bvadd y z))))
(check-sat)
'''

EQS = '''(declare-const a Int)
(declare-const b Int)
(declare-fun g (Int) Int)
(assert (= a (g b)))
(assert (> (+ a a) (g a)))
(assert (= () ()))
(check-sat)
'''


def menu(tier):
    scn = []
    b = 1
    fam = [
        ('sharing', SHARING, ('has', ['bvult']), 'default'),
        ('sharing-let', SHARING, ('has', ['let', 'v']), 'smtlib'),
        ('sharing-keep', SHARING, ('and', ('count', 'assert', 3),
                                   ('has', ['x', 'y'])), 'core'),
        ('eqs', EQS, ('has', ['g', '>']), 'default'),
        ('eqs-elim', EQS, ('has', ['+']), 'smtlib'),
        ('binders', S.BINDERS, ('has', ['>', 'f']), 'default'),
        ('consts2', S.CONSTS, dict(S.MODELS_DDMIN['consts2'])['keepshape'],
         'core'),
    ]
    for name, inp, model, ms in fam:
        for strat in S.STRATEGIES:
            for j in (1, 2):
                scn.append(S.mk(f'c13/{name}/{strat}/j{j}/{ms}', inp, model,
                                strat, j, S.MUTATOR_SETS[ms],
                                budget=b if j > 1 else 0))
    return scn


def budgets_of(scn):
    return {'sched': scn.get('budget', 0), 'accept': 0}


def judge(part, scn, x):
    if x.crash is not None:
        common.pcount(part, 'crashed_executions')
    oracles.judge_c13(part, scn, x)


def run_history(rep):
    parts = sched.explore_scenarios(menu(rep.tier), judge, budgets_of)
    sched.merge_parts(rep, parts)
    rep.count('evaluations', rep.coverage.get('executions', 0))
    rep.count('distinct_nontrivial', rep.coverage.get('distinct_outcomes', 0))
    from .. import conform
    j1 = [s for s in menu(rep.tier) if s['name'].split('/')[-2] == 'j1']
    conform.j1_conformance(rep, j1[rep.seed % 3::3] if rep.tier != 'thorough'
                           else j1)
    rep.set('traces_validated_against_impl',
            rep.coverage.get('traces_validated_against_impl', 0))
    rep.set('history_rule',
            'history part: 7 scenario families with sharing mutators '
            '(let substitution, variable elimination, constants built from '
            'the declaration\'s sort node, equalities with ()) x 3 strategies '
            'x -j 1/2, schedule budget 1; ids of all nodes at every '
            'TaskGenerator / Producer construction')
    rep.assume('virtual pool abstraction (DESIGN 2.5)')
