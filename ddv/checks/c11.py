"""C11 - applying a simplification changes exactly the designated subtrees.

Bounded-exhaustive: every (base forest, simplification) pair within the
bounds against a recursive nested-list model; identity of untouched nodes;
base not modified; pending second simplification still applicable;
declarations inserted after the set-* prefix; every call under a
deterministic work budget.  See DESIGN.md section 3, C11.
"""
import itertools
import os

from .. import common, sexp

PROP = 'C11'
LEAVES = ['a', 'b']


class Budget(BaseException):
    pass


class _Meter:
    """Counts Node hash calls and Node constructions of the code under test;
    raises Budget beyond the limit (deterministic: counts, not time)."""
    limit = None
    n = 0


def _install_meter():
    from ddsmt.nodes import Node

    def counted_hash(self):
        _Meter.n += 1
        if _Meter.limit is not None and _Meter.n > _Meter.limit:
            _Meter.limit = None
            raise Budget()
        return self.hash

    Node.__hash__ = counted_hash

    class Counter(common.PrivateCounter):

        @property
        def value(self):
            return self._v

        @value.setter
        def value(self, v):
            self._v = v
            _Meter.n += 1
            if _Meter.limit is not None and _Meter.n > _Meter.limit:
                _Meter.limit = None
                raise Budget()

    common.use_private_ids(0, Counter)


def metered(fn, limit):
    _Meter.n = 0
    _Meter.limit = limit
    try:
        return fn()
    finally:
        _Meter.limit = None


def _init():
    common.import_ddsmt()
    _install_meter()


# --------------------------------------------------------------------------
# model

DELETE = object()


def model_apply(forest, id_repl, struct, fresh):
    """Reference semantics on nested lists.

    id_repl : {path: replacement tree | None | ('tuple', [trees])}
    struct  : list of (key tree, replacement tree)
    Returns (result forest, origin forest, touched) where origin mirrors the
    result: a path tuple for an untouched original subtree, None for new."""
    touched = [False]

    def rew(t, path):
        if path in id_repl:
            touched[0] = True
            r = id_repl[path]
            if r is None:
                return DELETE, None
            return r, 'new'
        for key, r in struct:
            if t == key:
                touched[0] = True
                if r is None:
                    return DELETE, None
                return r, 'new'
        if isinstance(t, str):
            return t, path
        kids = []
        origins = []
        same = True
        for i, c in enumerate(t):
            rc, oc = rew(c, path + (i, ))
            if rc is DELETE:
                same = False
                continue
            if oc != path + (i, ):
                same = False
            kids.append(rc)
            origins.append(oc)
        if same:
            return t, path
        return kids, origins

    res, org = [], []
    for i, t in enumerate(forest):
        r, o = rew(t, (i, ))
        if r is DELETE:
            continue
        res.append(r)
        org.append(o)
    if touched[0] and fresh:
        pos = 0
        while pos < len(res):
            e = res[pos]
            if isinstance(e, str) or not e or not isinstance(e[0], str):
                break
            if e[0] not in ('set-info', 'set-logic'):
                break
            pos += 1
        res = res[:pos] + list(fresh) + res[pos:]
        org = org[:pos] + ['new'] * len(fresh) + org[pos:]
    return res, org, touched[0]


# --------------------------------------------------------------------------
# driving the real code


def build(forest):
    from ddsmt.nodes import Node
    return [sexp.list_to_node(t, Node) for t in forest]


def node_at(nodes_, path):
    n = nodes_[path[0]]
    for i in path[1:]:
        n = n.data[i]
    return n


def ids_of(nodes_):
    out = []
    stack = list(reversed(nodes_))
    while stack:
        n = stack.pop()
        out.append(n.id)
        if not isinstance(n.data, str):
            stack.extend(reversed(n.data))
    return out


def mk_repl(spec, base_nodes, path):
    """Turn a replacement spec into what a mutator would put in substs."""
    from ddsmt.nodes import Node
    kind = spec[0]
    if kind == 'none':
        return None, None
    if kind == 'tree':
        return sexp.list_to_node(spec[1], Node), spec[1]
    node = node_at(base_nodes, path)
    tree = sexp.node_to_list(node)
    if kind == 'child0':
        return node.data[0], tree[0]
    if kind == 'tail':  # BinaryReduction style: tuple of Nodes
        return node.data[1:], tree[1:]
    raise AssertionError(kind)


def id_specs_for(tree):
    specs = [('none', ), ('tree', 'c'), ('tree', 'a'), ('tree', ['a']),
             ('tree', ['c', 'a'])]
    if not isinstance(tree, str) and len(tree) >= 1:
        specs.append(('child0', ))
    if not isinstance(tree, str) and len(tree) >= 2:
        specs.append(('tail', ))
    return specs


def check_identity(result_nodes, origin, base_nodes):
    """Untouched subtrees must be the very objects of the base."""
    bad = []

    def go(rn, org):
        if org == 'new' or org is None:
            return
        if isinstance(org, tuple):
            if rn is not node_at(base_nodes, org):
                bad.append(org)
            return
        # rebuilt spine: list of child origins
        if isinstance(rn.data, str) or len(rn.data) != len(org):
            bad.append('shape')
            return
        for c, o in zip(rn.data, org):
            go(c, o)

    if len(result_nodes) != len(origin):
        return ['toplevel-length']
    for rn, o in zip(result_nodes, origin):
        go(rn, o)
    return bad


def run_case(part, forest, id_part, struct_part, fresh, label, second=None):
    """One (base, simplification) pair through the real apply_simp."""
    from ddsmt.mutator_utils import Simplification, apply_simp
    from ddsmt.nodes import Node
    base = build(forest)
    snap_ids = ids_of(base)
    substs = {}
    id_model = {}
    for path, spec in id_part:
        repl, mtree = mk_repl(spec, base, path)
        substs[node_at(base, path).id] = repl
        id_model[path] = mtree
    struct_model = []
    for key, rep in struct_part:
        substs[sexp.list_to_node(key, Node)] = None if rep is None else \
            sexp.list_to_node(rep, Node)
        struct_model.append((key, rep))
    fresh_nodes = [sexp.list_to_node(f, Node) for f in fresh]
    exp, origin, touched = model_apply(forest, id_model, struct_model, fresh)
    size = sum(sexp.count_nodes(t) for t in forest) + 1
    limit = 400 * size * (len(substs) + 2)
    simp = Simplification(substs, fresh_nodes)
    common.pcount(part, 'evaluations')
    if touched:
        common.pcount(part, 'distinct_nontrivial')

    def fail(kind, **kw):
        sig = f'{label}|{kind}|' + sexp.serialize_all(forest)[:80] + '|' + \
            repr(sorted((p, s[0]) for p, s in id_part)) + repr(struct_part)
        rec = {
            'brief': f'{kind}: base {sexp.serialize_all(forest)!r} id-keys '
                     f'{[(p, s) for p, s in id_part]} structural '
                     f'{struct_part} fresh {fresh}: {kw}',
            'forest': forest,
            'id_part': [[list(p), list(s)] for p, s in id_part],
            'struct_part': struct_part,
            'fresh': fresh,
            'label': label,
        }
        common.pviolation(part, sig, rec, kf=kw.get('kf'))

    try:
        res = metered(lambda: apply_simp(base, simp), limit)
    except Budget:
        fail('budget-exceeded', limit=limit)
        return None
    except Exception as e:  # noqa
        fail(f'exception:{type(e).__name__}', err=repr(e))
        return None
    got = sexp.node_to_list(res)
    if got != exp:
        fail('result-differs', got=sexp.serialize_all(got),
             expected=sexp.serialize_all(exp))
        return None
    if ids_of(base) != snap_ids or sexp.node_to_list(base) != forest:
        fail('base-modified')
        return None
    if not touched:
        if res is not base and any(x is not y for x, y in zip(res, base)):
            fail('identity-lost-untouched')
        return res
    bad = check_identity(res, origin, base)
    if bad:
        fail('identity-lost', where=repr(bad[:3]))
        return None
    return res, base


def antichains(paths, k):
    """All sets of <= k pairwise non-nested positions."""
    paths = list(paths)
    yield ()
    for p in paths:
        yield (p, )
    if k >= 2:
        for p, q in itertools.combinations(paths, 2):
            if p[:len(q)] == q or q[:len(p)] == p:
                continue
            yield (p, q)
    if k >= 3:
        for trip in itertools.combinations(paths, 3):
            ok = True
            for p, q in itertools.combinations(trip, 2):
                if p[:len(q)] == q or q[:len(p)] == p:
                    ok = False
            if ok:
                yield trip


STRUCT_KEYS = ['a', ['a'], ['a', 'b']]


def struct_repls(key):
    # None = delete every occurrence
    return ['c', ['g', key], ['g', key, key], None]


def run_unit(unit):
    kind = unit[0]
    part = common.part_result()
    if kind == 'inline':
        _, label, i = unit
        maxn = 5 if os.environ.get('VERIF_TIER') == 'thorough' else 4
        for body in inl_bodies(maxn):
            run_inline(part, body, (INL_ARGS[i], ), label)
            for a2 in INL_ARGS:
                run_inline(part, body, (INL_ARGS[i], a2), label)
        if i == 3 and label == 'inline':
            part['samples'].append({
                'script': '(define-fun f ((a S) (b S)) S (a b)) '
                          '(assert (p (f (+ a 1) b)))',
                'mutator': 'InlineDefinedFuns',
                'expected': '(assert (p ((+ a 1) b)))'})
        return part
    if kind == 'id':
        _, total, idx, nshards, maxk, nfull = unit
        for n, forest in enumerate(forests_exact(total)):
            if n % nshards != idx:
                continue
            paths = list(sexp.forest_positions(forest))
            for chain in antichains(paths, maxk if total < nfull else 1):
                if not chain:
                    continue
                spec_lists = [
                    id_specs_for(sexp.at(forest, p)) for p in chain
                ]
                if len(chain) > 1:
                    # a tuple of nodes as replacement is BinaryReduction's
                    # private encoding and only ever occurs alone
                    spec_lists = [[s for s in sl if s[0] != 'tail']
                                  for sl in spec_lists]
                for specs in itertools.product(*spec_lists):
                    run_case(part, forest, list(zip(chain, specs)), [], [],
                             'id')
            if n == idx and len(part['samples']) < 1 and paths:
                part['samples'].append({
                    'base': sexp.serialize_all(forest),
                    'id_key_at': list(paths[-1]),
                    'replacement': '(c a)'
                })
    elif kind == 'struct':
        _, total, idx, nshards = unit
        for n, forest in enumerate(forests_exact(total)):
            if n % nshards != idx:
                continue
            for key in STRUCT_KEYS:
                for rep in struct_repls(key):
                    run_case(part, forest, [], [(key, rep)], [], 'struct')
            # two structural keys at once
            for rep1 in ('c', ['g', 'a']):
                run_case(part, forest, [], [('a', rep1), ('b', 'a')], [],
                         'struct2')
            # id key + structural key (id replacement free of keys)
            paths = list(sexp.forest_positions(forest))
            for p in paths:
                for spec in (('none', ), ('tree', 'c'), ('tree', ['c'])):
                    for key in ('a', ['a']):
                        run_case(part, forest, [(p, spec)],
                                 [(key, ['g', key])], [], 'id+struct')
    elif kind == 'pairs':
        _, total, idx, nshards = unit
        for n, forest in enumerate(forests_exact(total)):
            if n % nshards != idx:
                continue
            paths = list(sexp.forest_positions(forest))
            for p, q in itertools.permutations(paths, 2):
                if p[:len(q)] == q or q[:len(p)] == p:
                    continue
                for s1 in (('none', ), ('tree', 'c'), ('tree', ['c', 'a'])):
                    for s2 in (('none', ), ('tree', 'd')):
                        run_pair(part, forest, p, s1, q, s2)
    elif kind == 'nested-pairs':
        _, total, idx, nshards = unit
        for n, forest in enumerate(forests_exact(total)):
            if n % nshards != idx:
                continue
            paths = list(sexp.forest_positions(forest))
            for p in paths:
                t = sexp.at(forest, p)
                if isinstance(t, str) or not t:
                    continue
                for q in paths:
                    if len(q) > len(p) and q[:len(p) + 1] == p + (0, ):
                        for s2 in (('none', ), ('tree', 'd')):
                            if q == p + (0, ) and s2[0] == 'none':
                                pass
                            run_nested_pair(part, forest, p, q, s2)
    elif kind == 'decls':
        cmds = [['set-logic', 'L'], ['set-info', ':a', 'b'],
                ['declare-const', 'x', 'Bool'], ['assert', 'a'], 'x', [],
                ';c']
        fresh_sets = [[], [['declare-const', 'v', 'Bool']],
                      [['declare-const', 'v', 'Bool'],
                       ['declare-fun', 'w', [], 'Int']]]
        _, L = unit
        for seq in itertools.product(cmds, repeat=L):
            forest = list(seq)
            paths = list(sexp.forest_positions(forest))
            for p in paths:
                for fresh in fresh_sets:
                    run_case(part, forest, [(p, ('tree', 'v'))], [], fresh,
                             'decls')
            for fresh in fresh_sets[1:]:
                # nothing designated: no insertion either
                run_case(part, forest, [], [('zzz', 'v')], fresh, 'decls0')
                run_case(part, forest, [], [('a', 'v')], fresh, 'declsS')
    return part


def run_pair(part, forest, p, s1, q, s2):
    """Two pending id-keyed simplifications computed on the same base,
    applied one after the other."""
    from ddsmt.mutator_utils import Simplification, apply_simp
    base = build(forest)
    r1, m1 = mk_repl(s1, base, p)
    r2, m2 = mk_repl(s2, base, q)
    simp1 = Simplification({node_at(base, p).id: r1}, [])
    simp2 = Simplification({node_at(base, q).id: r2}, [])
    exp, _, _ = model_apply(forest, {p: m1, q: m2}, [], [])
    common.pcount(part, 'evaluations')
    common.pcount(part, 'distinct_nontrivial')
    common.pcount(part, 'pending_pairs')
    try:
        mid = metered(lambda: apply_simp(base, simp1), 100000)
        res = metered(lambda: apply_simp(mid, simp2), 100000)
        got = sexp.node_to_list(res)
    except (Budget, Exception) as e:  # noqa
        got = f'exception {type(e).__name__}: {e}'
    if got != exp:
        sig = f'pairs|second-pending-simplification-lost|' + \
            sexp.serialize_all(forest)[:80] + repr((p, s1[0], q, s2[0]))
        common.pviolation(
            part, sig, {
                'brief': f'pending pair: base {sexp.serialize_all(forest)!r}'
                         f' first {p}->{s1} then {q}->{s2}: got '
                         f'{got!r} expected {exp!r}',
                'forest': forest, 'pair': [list(p), list(s1), list(q),
                                           list(s2)], 'label': 'pairs'
            })


def run_nested_pair(part, forest, p, q, s2):
    """First replace the node at p by its own first child (ReplaceByChild),
    then apply a pending id-keyed simplification for node q inside that child:
    the child keeps its identity, so the second one still applies."""
    from ddsmt.mutator_utils import Simplification, apply_simp
    base = build(forest)
    node_p = node_at(base, p)
    node_q = node_at(base, q)
    r2, m2 = mk_repl(s2, base, q)
    simp1 = Simplification({node_p.id: node_p.data[0]}, [])
    simp2 = Simplification({node_q.id: r2}, [])
    # model: apply the inner replacement first, then pull the child up
    inner, _, _ = model_apply(forest, {q: m2}, [], [])
    sub = sexp.at(inner, p) if True else None
    if q == p + (0, ) and m2 is None:
        exp, _, _ = model_apply(forest, {p: None}, [], [])
    else:
        child = sub[0]
        exp, _, _ = model_apply(forest, {p: child}, [], [])
    common.pcount(part, 'evaluations')
    common.pcount(part, 'distinct_nontrivial')
    common.pcount(part, 'nested_pending_pairs')
    try:
        mid = metered(lambda: apply_simp(base, simp1), 100000)
        res = metered(lambda: apply_simp(mid, simp2), 100000)
        got = sexp.node_to_list(res)
    except (Budget, Exception) as e:  # noqa
        got = f'exception {type(e).__name__}: {e}'
    if got != exp:
        common.pviolation(
            part, 'pairs|pending-simplification-inside-moved-child-lost|' +
            sexp.serialize_all(forest)[:80] + repr((p, q, s2[0])), {
                'brief': f'nested pending pair: base '
                         f'{sexp.serialize_all(forest)!r}: replace {p} by '
                         f'its first child, then {q}->{s2}: got {got!r} '
                         f'expected {exp!r}',
                'forest': forest, 'label': 'nested-pairs',
                'pair': [list(p), list(q), list(s2)]})


INL_ARGS = ['a', 'b', 'c', ['+', 'a', '1'], ['+', 'b', '1'], ['g', 'b', 'a']]
INL_LEAVES = ['a', 'b', 'c']


def msubst(tree, env):
    """Reference: simultaneous substitution of leaves, replacements are
    inserted as given."""
    if isinstance(tree, str):
        return env.get(tree, tree)
    return [msubst(t, env) for t in tree]


def inl_bodies(maxn):
    for n in range(1, maxn + 1):
        for shp in sexp.shapes(n):
            k = sexp.count_leaves(shp)
            if k == 0:
                continue
            for combo in itertools.product(INL_LEAVES, repeat=k):
                yield sexp.fill(shp, iter(combo))


def run_inline(part, body, args, label):
    """Function inlining / let substitution through the real mutators:
    formal -> actual is a simultaneous substitution, actual arguments are
    inserted as given (also when they mention a formal parameter)."""
    from ddsmt import smtlib, mutators_smtlib
    from ddsmt.mutator_utils import apply_simp
    formals = ['a', 'b'][:len(args)]
    env = dict(zip(formals, args))
    if label == 'inline':
        forest = [['define-fun', 'f', [[x, 'S'] for x in formals], 'S', body],
                  ['assert', ['p', ['f'] + list(args)]]]
        path = (1, 1, 1)
        mut = mutators_smtlib.InlineDefinedFuns()
        want = [[forest[0], ['assert', ['p', msubst(body, env)]]]]
    else:
        forest = [['assert', ['p', ['let', [[x, t] for x, t in
                                            zip(formals, args)], body]]]]
        path = (0, 1, 1)
        mut = mutators_smtlib.LetSubstitution()
        want = []
        for x, t in zip(formals, args):
            want.append([['assert', ['p', ['let', forest[0][1][1][1],
                                           msubst(body, {x: t})]]]])
    base = build(forest)
    smtlib.collect_information(base)
    node = node_at(base, path)
    common.pcount(part, 'evaluations')
    common.pcount(part, 'distinct_nontrivial')
    try:
        if not mut.filter(node):
            props = []
        else:
            props = list(mut.mutations(node))
        results = [sexp.norm(sexp.node_to_list(apply_simp(base, sp)))
                   for sp in props]
    except Exception as e:  # noqa
        common.pviolation(part, f'{label}|exception|{type(e).__name__}', {
            'brief': f'{label}: {type(e).__name__} {e} on '
                     f'{sexp.serialize_all(forest)}',
            'label': label, 'body': body, 'args': list(args)})
        return
    common.pcount(part, f'{label}_proposals', len(results))
    if sexp.norm(sexp.node_to_list(base)) != sexp.norm(forest):
        common.pviolation(part, f'{label}|base-modified', {
            'brief': f'{label}: the input was modified: '
                     f'{sexp.serialize_all(forest)}',
            'label': label, 'body': body, 'args': list(args)})
    want_n = [sexp.norm(w) for w in want]
    for r in results:
        if r not in want_n:
            common.pviolation(
                part, f'{label}|not-simultaneous|'
                f'{len(args)}|{sexp.serialize(body)[:20]}', {
                    'brief': f'{label}: {sexp.serialize_all(forest)} is '
                             f'rewritten to {sexp.serialize_all(r)}, '
                             'expected ' + ' or '.join(
                                 sexp.serialize_all(w) for w in want),
                    'label': label, 'body': body, 'args': list(args)})
    if label == 'inline' and not results and \
            sexp.norm(msubst(body, env)) != sexp.norm(['f'] + list(args)):
        common.pviolation(part, f'{label}|no-proposal', {
            'brief': f'{label}: no proposal for '
                     f'{sexp.serialize_all(forest)}',
            'label': label, 'body': body, 'args': list(args)})



def forests_exact(total):
    for fs in sexp.forests_shapes(total):
        if len(fs) > 2:
            continue
        k = sum(sexp.count_leaves(s) for s in fs)
        for combo in itertools.product(LEAVES, repeat=k):
            it = iter(combo)
            yield [sexp.fill(s, it) for s in fs]


def plan(tier):
    nid = 7 if tier == 'thorough' else 6
    inl = [('inline', label, i) for label in ('inline', 'let')
           for i in range(len(INL_ARGS))]
    maxk = 3 if tier == 'thorough' else 2
    units = []
    for total in range(1, nid + 1):
        sh = 16 if total >= 5 else 1
        for i in range(sh):
            units.append(('id', total, i, sh, maxk,
                          nid + 1))
            units.append(('struct', total, i, sh))
    for total in range(2, (6 if tier == 'thorough' else 5) + 1):
        sh = 16 if total >= 5 else 1
        for i in range(sh):
            units.append(('pairs', total, i, sh))
    for total in range(2, 6):
        sh = 16 if total >= 5 else 1
        for i in range(sh):
            units.append(('nested-pairs', total, i, sh))
    for L in (1, 2, 3):
        units.append(('decls', L))
    return units + inl, nid, maxk


def main(tier):
    rep = common.Reporter(PROP, 'exploration', tier)
    units, nid, maxk = plan(rep.tier)
    parts = common.pmap(run_unit, units, init=_init)
    for p in parts:
        rep.merge(p)
    rep.set(
        'rule',
        f'bases: all forests of <= 2 trees with <= {nid} nodes over leaves '
        '{a,b} (empty lists included); simplifications: every antichain of '
        f'<= {maxk} positions x {{delete, fresh leaf, existing leaf, (a), '
        '(c a), own first child, tuple of own tail}; every structural key '
        'in {a,(a),(a b)} x {fresh leaf, term containing the key once / '
        'twice}; id+structural; two structural keys; pairs of pending '
        'id-keyed simplifications; declaration insertion over all command '
        'sequences of length <= 3 from 7 commands x 3 fresh sets; function '
        'inlining and let substitution through the real mutators: every '
        'body with <= 4 (thorough 5) nodes over {a,b,c} x 1 or 2 actual '
        'arguments from {a,b,c,(+ a 1),(+ b 1),(g b a)} (arguments that '
        'mention their own or the other formal parameter) against a '
        'simultaneous nested-list substitution. '
        'distinct_nontrivial = cases in which at least one position is '
        'designated (all cases are distinct by construction)')
    rep.set('exhaustive', True)
    rep.assume(
        'nested-list reference model in checks/c11.py',
        'work budget = 400*(n+1)*(keys+2) Node hash calls/constructions per '
        'apply_simp call', 'id replacements never contain or equal a '
        'structural key (the statement is ambiguous there)')
    return rep.finish()


def replay(rec):
    _init()
    r = rec['record']
    part = common.part_result()
    if r['label'] in ('inline', 'let'):
        run_inline(part, r['body'], tuple(r['args']), r['label'])
    elif r['label'] == 'nested-pairs':
        p, q, s2 = r['pair']
        run_nested_pair(part, r['forest'], tuple(p), tuple(q), tuple(s2))
    elif r['label'] == 'pairs':
        p, s1, q, s2 = r['pair']
        run_pair(part, r['forest'], tuple(p), tuple(s1), tuple(q), tuple(s2))
    else:
        idp = [(tuple(p), tuple(x if not isinstance(x, list) else x
                                for x in s)) for p, s in r['id_part']]
        idp = [(p, (s[0], ) + tuple(s[1:])) for p, s in idp]
        run_case(part, r['forest'], idp,
                 [tuple(x) for x in r['struct_part']], r['fresh'], r['label'])
    for sig, recd, kf in part['violations']:
        print('FAIL', recd['brief'])
    return 1 if part['violations'] else 0
