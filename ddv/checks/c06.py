"""C06 - the output file is a complete accepted input at every instant.

FAULT enumeration on the real write path (run in-process under the SCHED
launcher): every low-level file operation of every rewrite of the output file
is (a) an observation point - what would a concurrent reader / a kill -9 find
on disk right now? - and (b) an interrupt point - KeyboardInterrupt raised
there and left to ddSMT's own handlers.  Also: interrupts at command
executions, in particular those still running after an acceptance.
REAL: SIGINT to the process group at the k-th command invocation.
DESIGN 3/C06.
"""
import errno
import os
import signal
import subprocess
import sys

from .. import common, explore, scenarios as S, sched, sexp

PROP = 'C06'


class FileOps:
    """Numbers the low-level operations ddSMT performs on the output file
    (and siblings in its directory) and can observe / interrupt at each."""

    def __init__(self, outfile, interrupt_at=None):
        self.outfile = outfile
        self.dir = os.path.dirname(outfile)
        self.n = 0
        self.interrupt_at = interrupt_at
        self.observations = []  # (point no, op, on-disk bytes or None)
        self.fired = None
        self.xdev = 0

    def concerns(self, path):
        try:
            return os.path.abspath(path).startswith(self.outfile)
        except TypeError:
            return False

    def disk(self):
        try:
            fd = os.open(self.outfile, os.O_RDONLY)
        except FileNotFoundError:
            return None
        try:
            chunks = []
            while True:
                b = os.read(fd, 1 << 16)
                if not b:
                    break
                chunks.append(b)
            return b''.join(chunks)
        finally:
            os.close(fd)

    def point(self, op):
        self.n += 1
        self.observations.append((self.n, op, self.disk()))
        if self.interrupt_at is not None and self.n == self.interrupt_at:
            self.fired = (self.n, op)
            raise KeyboardInterrupt()


class FileProxy:

    def __init__(self, f, ops):
        self._f = f
        self._ops = ops

    def write(self, s):
        self._ops.point('before-write')
        r = self._f.write(s)
        return r

    def flush(self):
        self._ops.point('before-flush')
        return self._f.flush()

    def close(self):
        self._ops.point('before-close')
        r = self._f.close()
        self._ops.point('after-close')
        return r

    def __enter__(self):
        return self

    def __exit__(self, *a):
        # the with statement closes the file also when an exception passes
        if a[0] is None:
            self.close()
        else:
            self._f.close()
        return False

    def __getattr__(self, name):
        return getattr(self._f, name)


def install_file_proxy(ops):
    """Rebind open / os in ddsmt.nodeio for one execution."""
    from ddsmt import nodeio
    import builtins

    def proxy_open(path, mode='r', *a, **k):
        if ops.concerns(path) and 'w' in mode:
            ops.point('before-open')
            f = builtins.open(path, mode, *a, **k)
            ops.point('after-open')
            return FileProxy(f, ops)
        return builtins.open(path, mode, *a, **k)

    nodeio.open = proxy_open
    real_os = os
    tmproot = os.path.join(ops.dir, 'tmp') + os.sep

    def xdev(a, b):
        """The temporary directory is modelled as a different file system
        than the output directory: a rename across the two fails."""
        try:
            a, b = os.path.abspath(a), os.path.abspath(b)
        except TypeError:
            return
        if a.startswith(tmproot) != b.startswith(tmproot):
            ops.xdev += 1
            raise OSError(errno.EXDEV, 'Invalid cross-device link', a)

    if True:

        class OsProxy:

            def __getattr__(self, name):
                return getattr(real_os, name)

            def replace(self, a, b, *x, **k):
                xdev(a, b)
                if ops.concerns(b) or ops.concerns(a):
                    ops.point('before-replace')
                    r = real_os.replace(a, b, *x, **k)
                    ops.point('after-replace')
                    return r
                return real_os.replace(a, b, *x, **k)

            def rename(self, a, b, *x, **k):
                xdev(a, b)
                if ops.concerns(b) or ops.concerns(a):
                    ops.point('before-rename')
                    r = real_os.rename(a, b, *x, **k)
                    ops.point('after-rename')
                    return r
                return real_os.rename(a, b, *x, **k)

            def unlink(self, p, *x, **k):
                return real_os.unlink(p, *x, **k)

        if hasattr(nodeio, 'os'):
            nodeio.os = OsProxy()
        # library helpers the write path may go through (shutil.move falls
        # back to truncate + copy when rename fails with EXDEV)
        import shutil
        shutil.os = OsProxy()
        shutil.open = proxy_open


def uninstall_file_proxy():
    from ddsmt import nodeio
    import shutil
    if 'open' in nodeio.__dict__:
        del nodeio.__dict__['open']
    if hasattr(nodeio, 'os'):
        nodeio.os = os
    shutil.os = os
    if 'open' in shutil.__dict__:
        del shutil.__dict__['open']


def toks(data):
    if data is None:
        return None
    try:
        return tuple(sexp.strip_comment(t)
                     for t in sexp.token_texts(data.decode('utf-8')))
    except (sexp.LexError, UnicodeDecodeError):
        return ('<unreadable>', )


def accepted_sets(x):
    """Token sequences of the writes, in order (from the write monitor)."""
    return [e[1] for e in x.log if e[0] == 'write']


def run_with_ops(scn, interrupt_at=None, chooser=None, fault=None):
    common.import_ddsmt()
    sched.install()
    holder = {}

    def before_main(rt):
        ops = FileOps(os.path.join(sched.workdir(), 'out' +
                                   scn.get('outext', '.smt2')),
                      interrupt_at)
        holder['ops'] = ops
        install_file_proxy(ops)

    try:
        x = sched.run_once(scn, chooser or explore.Chooser([]), fault=fault,
                           before_main=before_main)
    finally:
        uninstall_file_proxy()
    return x, holder['ops']


def stray_files(x):
    d = os.path.dirname(x.outfile)
    keep = {os.path.basename(x.infile), os.path.basename(x.outfile), 'cmd.sh',
            'cc.sh', 'tmp'}
    return sorted(f for f in os.listdir(d) if f not in keep)


def run_unit(unit):
    kind = unit[0]
    part = common.part_result()
    scn = unit[1]

    def viol(k, detail, extra=None):
        rec = {'brief': f'{k} in scenario {scn["name"]} (argv '
                        f'{scn["argv"]}): {detail}', 'scenario': scn,
               'unit': [unit[0]] + [u for u in unit[2:]]}
        common.pviolation(part, f'{k}|{scn["name"]}', rec)

    if kind == 'observe':
        x, ops = run_with_ops(scn)
        common.pcount(part, 'evaluations')
        common.pcount(part, 'operation_points', ops.n)
        chain = accepted_sets(x)
        complete = set(chain)
        first_done = None
        nwrites = 0
        for no, op, data in ops.observations:
            if op == 'after-close' or op == 'after-replace':
                nwrites += 1
            if data is None:
                if first_done is not None:
                    viol('C06|file-vanished', f'at point {no} ({op}) the '
                         'output file does not exist')
                    break
                continue
            t = toks(data)
            common.pcount(part, 'distinct_nontrivial')
            if first_done is None:
                # before the first rewrite completed anything goes except a
                # file that is there but not a complete accepted input ... is
                # exactly what a reader must never see: but a first rewrite
                # in progress may not have created the file yet
                if t in complete:
                    first_done = no
                    continue
            if t not in complete:
                viol('C06|incomplete-file-visible',
                     f'at operation point {no} ({op}) of {ops.n} a reader '
                     f'(or a kill) finds {data[:80]!r} ({len(data)} bytes), '
                     f'which is not one of the {len(chain)} accepted inputs')
                break
        if x.crash:
            common.pcount(part, 'crashed')
        part['points'] = ops.n
        if len(part['samples']) < 1:
            part['samples'].append({'scenario': scn['name'],
                                    'operation_points': ops.n,
                                    'rewrites': len(chain)})
    elif kind == 'interrupt':
        k = unit[2]
        x, ops = run_with_ops(scn, interrupt_at=k)
        common.pcount(part, 'evaluations')
        common.pcount(part, 'distinct_nontrivial')
        common.pcount(part, 'interrupt_executions')
        if ops.fired is None:
            return part
        chain = accepted_sets(x)  # writes completed (monitor logs after)
        # which write was in progress?  all writes whose monitor entry exists
        # completed; the interrupted one is not logged
        t = toks(x.out_bytes)
        ok = set(chain[-1:])
        n_done = len(chain)
        if x.crash is not None:
            viol('C06|interrupt-not-handled', f'KeyboardInterrupt at point '
                 f'{k} ({ops.fired[1]}) escaped: {x.crash[:2]}')
        elif x.rc != 1:
            viol('C06|wrong-status-after-interrupt',
                 f'main() returned {x.rc} after an interrupt')
        if n_done == 0:
            # the very first rewrite was interrupted: no file, or a complete
            # candidate (the one being installed) - never a partial one
            verdicts = {sched.norm_tokens(e[1]) for e in x.log
                        if e[0] == 'verdict' and e[2]}
            if t is not None and sched.norm_tokens(t) not in verdicts:
                viol('C06|partial-file-after-interrupt',
                     f'interrupt at point {k} ({ops.fired[1]}) of the first '
                     f'rewrite leaves {x.out_bytes[:80]!r}')
        else:
            verdicts = {sched.norm_tokens(e[1]) for e in x.log
                        if e[0] == 'verdict' and e[2]}
            if t is None:
                viol('C06|file-lost-after-interrupt',
                     f'interrupt at point {k} ({ops.fired[1]}): the output '
                     f'file is gone')
            elif t not in ok and not (sched.norm_tokens(t) in verdicts
                                      and t not in set(chain[:-1])):
                viol('C06|stale-or-partial-file-after-interrupt',
                     f'interrupt at point {k} ({ops.fired[1]}) during '
                     f'rewrite #{n_done + 1}: file holds '
                     f'{x.out_bytes[:80]!r}, expected the last accepted '
                     f'input (or the one being installed)')
        if not x.input_unchanged:
            viol('C06|input-modified', 'input file changed')
        if x.tmp_left:
            viol('C06|tmpdir-left', f'temporary directory not removed: '
                 f'{x.tmp_left}')
        st = stray_files(x)
        if st:
            viol('C06|stray-file-left', f'files left next to the output '
                 f'file after an interrupt at point {k} ({ops.fired[1]}): '
                 f'{st}')
    elif kind == 'cmd-interrupt':
        # interrupts at command executions (all executes on the default
        # schedule; under schedule deviations only executes that run while
        # the abort flag is set, i.e. after an acceptance)
        budgets = unit[2]

        def run(ch):
            state = {'n': 0}

            def fault(rt, which, tk, timeout):
                state['n'] += 1
                in_window = any(e.flag for e in rt.events[-1:])
                if in_window or not ch.deviations().get('sched'):
                    c = rt.choose(('fault', state['n']), 2, 0, 'fault')
                    if c:
                        rt.interrupted_at = (state['n'], in_window,
                                             sum(1 for e in rt.log
                                                 if e[0] == 'accept'))
                        raise KeyboardInterrupt()
                return None

            x, ops = run_with_ops(scn, chooser=ch, fault=fault)
            return x

        def on_exec(ch, x):
            common.pcount(part, 'evaluations')
            at = getattr(x.rt, 'interrupted_at', None)
            n_acc0 = sum(1 for e in x.log if e[0] == 'accept')
            if len(accepted_sets(x)) > n_acc0:
                viol('C06|rewritten-without-acceptance',
                     f'the output file was rewritten {len(accepted_sets(x))} '
                     f'times but the main loop adopted only {n_acc0} '
                     f'candidates (schedule '
                     f'{[c for _, c in ch.vector() if c][:6]}); it holds '
                     f'{(x.out_bytes or b"")[:80]!r}')
            if at is None:
                return
            common.pcount(part, 'distinct_nontrivial')
            common.pcount(part, 'cmd_interrupt_executions')
            if at[1]:
                common.pcount(part, 'interrupts_after_an_acceptance')
            n_acc = sum(1 for e in x.log if e[0] == 'accept')
            chain = accepted_sets(x)
            t = toks(x.out_bytes)
            if x.crash is not None:
                viol('C06|interrupt-not-handled',
                     f'KeyboardInterrupt in command execution #{at[0]} '
                     f'escaped: {x.crash[:2]}')
            elif x.rc != 1:
                viol('C06|wrong-status-after-interrupt',
                     f'main() returned {x.rc}')
            if n_acc > len(chain):
                viol('C06|accepted-input-not-in-file',
                     f'interrupt in command execution #{at[0]} (schedule '
                     f'{[c for _, c in ch.vector() if c][:6]}): {n_acc} '
                     f'inputs were accepted but the output file was only '
                     f'rewritten {len(chain)} times; it holds '
                     f'{(x.out_bytes or b"")[:80]!r}')
            elif chain and t != chain[-1]:
                viol('C06|file-is-not-last-accepted',
                     f'interrupt in command execution #{at[0]}: file holds '
                     f'{(x.out_bytes or b"")[:80]!r}')
            if x.tmp_left:
                viol('C06|tmpdir-left', f'{x.tmp_left}')
            if not x.input_unchanged:
                viol('C06|input-modified', 'input file changed')

        n, capped = explore.explore(run, budgets, on_exec, max_execs=6000)
        if capped:
            part['caps'].append(f'{scn["name"]}: capped at {n}')
    return part


def scenarios(tier):
    scn = []
    fam = [('bool5', 'and+b', 'default'), ('asserts8', '3asserts', 'erase'),
           ('consts', '4gt', 'core'), ('commented', 'or', 'default'),
           ('int', '+', 'default')]
    for inp, mname, ms in fam:
        model = dict(S.MODELS[inp])[mname]
        for strat in S.STRATEGIES:
            for fmt in S.FORMATS:
                if fmt and (inp, strat) not in (('bool5', 'hybrid'),
                                                ('commented', 'ddmin'),
                                                ('int', 'hierarchical')) \
                        and tier != 'thorough':
                    continue
                scn.append(S.mk(f'{inp}/{mname}/{strat}/{"".join(fmt)}', inp,
                                model, strat, 1, S.MUTATOR_SETS[ms] + fmt))
    return scn


def _init():
    common.import_ddsmt()
    sched.install()
    install_accept_monitor()


_ACC = False


def install_accept_monitor():
    """Log the moment the main loop adopts a candidate: both parallel loops
    set the abort flag exactly then; the sequential ddmin loop calls
    TaskGenerator.update."""
    global _ACC
    if _ACC:
        return
    from ddsmt import strategy_ddmin
    orig_set = sched.VEvent.set

    def vset(self):
        rt = sched.Runtime.current
        if rt is not None:
            rt.log.append(('accept', 'flag'))
        return orig_set(self)

    sched.VEvent.set = vset
    orig_update = strategy_ddmin.TaskGenerator.update

    def update(self, exprs):
        rt = sched.Runtime.current
        if rt is not None and self.pickled_exprs is None:
            rt.log.append(('accept', 'seq'))
        return orig_update(self, exprs)

    strategy_ddmin.TaskGenerator.update = update
    _ACC = True


def real_part(rep):
    with common.scratch_dir('ddv-c06-real-') as d:
        infile = os.path.join(d, 'in.smt2')
        with open(infile, 'w') as f:
            f.write(S.ASSERTS8)
        cmd = os.path.join(d, 'cmd.sh')
        with open(cmd, 'w') as f:
            f.write('#!/bin/sh\nn=$(cat "$CNT" 2>/dev/null || echo 0)\n'
                    'n=$((n+1)); echo $n > "$CNT"\n'
                    'c=$(grep -c assert "$1")\n'
                    'if [ "$c" -ge 3 ]; then cp "$1" "$ACC/$$"; fi\n'
                    'if [ "$n" = "$SIG_AT" ]; then '
                    '/bin/kill -INT -- -$(ps -o pgid= -p $$ | tr -d " "); '
                    'sleep 0.3; fi\n'
                    'if [ "$c" -ge 3 ]; then exit 1; fi\nexit 0\n')
        os.chmod(cmd, 0o755)

        def new_group():
            os.setsid()
            signal.signal(signal.SIGINT, signal.SIG_DFL)

        procs = []
        for strat in ('ddmin', 'hierarchical'):
            for j in (1, 2):
                for k in (2, 4, 7, 11, 16):
                    tag = f'{strat}-j{j}-k{k}'
                    tmp = os.path.join(d, 'tmp-' + tag)
                    acc = os.path.join(d, 'acc-' + tag)
                    os.mkdir(tmp)
                    os.mkdir(acc)
                    out = os.path.join(d, f'out-{tag}.smt2')
                    env = dict(os.environ, TMPDIR=tmp, ACC=acc,
                               CNT=os.path.join(tmp, 'cnt'), SIG_AT=str(k))
                    p = subprocess.Popen(
                        [sys.executable,
                         os.path.join(common.REPO, 'bin', 'ddsmt'),
                         '--strategy', strat, '-j', str(j), infile, out,
                         cmd], cwd=common.REPO, env=env,
                        stdout=subprocess.PIPE, stderr=subprocess.PIPE,
                        preexec_fn=new_group)
                    procs.append((tag, p, tmp, acc, out))
        import time as _time
        deadline = _time.time() + 300
        for tag, p, tmp, acc, out in procs:
            # wait for the main process only: helpers it may leave behind
            # keep the pipes open, so communicate() would wait for them
            try:
                p.wait(timeout=max(1, deadline - _time.time()))
                hung = False
            except subprocess.TimeoutExpired:
                hung = True
            try:
                os.killpg(p.pid, signal.SIGKILL)
            except ProcessLookupError:
                pass
            try:
                p.communicate(timeout=30)
            except subprocess.TimeoutExpired:
                pass
            if hung:
                rep.violation(f'C06|real-hang|{tag}', {
                    'brief': f'bin/ddsmt {tag}: did not exit within 300 s '
                             f'after SIGINT'})
                continue
            rep.count('real_runs')
            rep.count('evaluations')
            accepted = set()
            for f in os.listdir(acc):
                accepted.add(toks(open(os.path.join(acc, f), 'rb').read()))
            data = open(out, 'rb').read() if os.path.exists(out) else None
            if data is not None and toks(data) not in accepted:
                rep.violation(f'C06|real-incomplete-file|{tag}', {
                    'brief': f'bin/ddsmt {tag} after SIGINT: output file '
                             f'holds {data[:100]!r}, which no accepted '
                             f'candidate had'})
            left = [x for x in os.listdir(tmp) if x.startswith('ddsmt-')]
            if left:
                rep.violation(f'C06|real-tmpdir-left|{tag}', {
                    'brief': f'bin/ddsmt {tag} after SIGINT: temporary '
                             f'directory left: {left}'})
            if open(infile).read() != S.ASSERTS8:
                rep.violation(f'C06|real-input-modified|{tag}', {
                    'brief': 'input file modified'})


def main(tier):
    rep = common.Reporter(PROP, 'fault_enumeration', tier)
    _init()
    scns = scenarios(rep.tier)
    # stage 1: observation runs (also tell how many operation points exist)
    parts = common.pmap(run_unit, [('observe', s) for s in scns], init=_init)
    units = []
    for s, p in zip(scns, parts):
        npts = p.pop('points', 0)
        rep.merge(p)
        for k in range(1, npts + 1):
            units.append(('interrupt', s, k))
    # stage 2: one execution per operation point with an interrupt there
    # stage 3: interrupts at command executions
    for inp, mname, ms in (('asserts8', '3asserts', 'erase'),
                           ('bool5', 'and+b', 'core')):
        model = dict(S.MODELS[inp])[mname]
        for strat in S.STRATEGIES:
            for j in (1, 2):
                s = S.mk(f'{inp}/{strat}/j{j}/cmdint', inp, model, strat, j,
                         S.MUTATOR_SETS[ms])
                units.append(('cmd-interrupt', s,
                              {'sched': 1 if j > 1 else 0, 'fault': 1}))
    for strat in ('ddmin', 'hybrid'):
        s = S.mk(f'asserts8/6asserts/{strat}/j2/cmdint', 'asserts8',
                 ('count', 'assert', 6), strat, 2, S.MUTATOR_SETS['erase'])
        units.append(('cmd-interrupt', s, {'sched': 1, 'fault': 1}))
    units.sort(key=lambda u: 0 if u[0] == 'cmd-interrupt' else 1)
    for p in common.pmap(run_unit, units, init=_init, chunksize=1):
        rep.merge(p)
    real_part(rep)
    rep.set('scenarios', len(scns))
    rep.set(
        'rule', f'{len(scns)} scenarios (3 strategies, 3 output formats) with '
        '3-10 rewrites of the output file: every low-level operation (open, '
        'each write, close, replace) of every rewrite is an observation '
        'point (content on disk read through a separate descriptor) and an '
        'interrupt point (one execution each); interrupts at every command '
        'execution on the default schedule and, under schedules with one '
        'deviation (-j 2), at every execution that runs after an acceptance; '
        'REAL: SIGINT to the process group at the 2nd/4th/7th/11th/16th '
        'command invocation, 2 strategies x -j 1/2. distinct_nontrivial = '
        'observation points with a file present + interrupt executions')
    rep.set('exhaustive', True)
    rep.assume('operation-point granularity: python-level file operations '
               '(not single machine instructions inside one write system '
               'call)', '"last accepted input" is read leniently for an '
               'interrupt that falls inside the rewrite installing it: the '
               'previous accepted input is accepted too')
    return rep.finish()


def replay(rec):
    _init()
    r = rec['record']
    print(r['brief'])
    scn = r['scenario']
    from .. import schedcheck
    scn['model'] = schedcheck.tuplify(scn['model'])
    u = r['unit']
    if u[0] == 'cmd-interrupt':
        part = run_unit(('cmd-interrupt', scn, u[1]))
    elif u[0] == 'interrupt':
        part = run_unit(('interrupt', scn, u[1]))
    else:
        part = run_unit(('observe', scn))
    for v in part['violations'][:5]:
        print('FAIL', v[1]['brief'][:300])
    return 1 if part['violations'] else 0
