"""C16 - inferred sorts and bit-widths are never wrong.

ENUM: all well-sorted terms of depth <= 2 over the operator table of
ddv/typed.py, embedded in scripts (asserted / let-bound / under a quantifier /
as define-fun body); at every term position get_sort is None or the
generator's sort and get_bv_width is -1 or the generator's width; the
consumers' notion of "same sort" (default constants, existing variables) is
checked against the independent sort checker.  DESIGN 3/C16.
"""
from .. import common, sexp, typed

PROP = 'C16'
BATCH = 60


def _init():
    common.import_ddsmt()


def wrap(t, i, ctx):
    """Embed typed term t (index i) in a command; returns (command tree,
    list of (path into command, T)) - the term positions to check."""
    s = t.sort
    if ctx == 'assert':
        if s == typed.BOOL:
            return ['assert', t.tree], [((1, ), t)]
        if s == typed.REGLAN:
            return ['assert', ['str.in_re', 's1', t.tree]], [((1, 2), t)]
        vs = typed.variables().get(s)
        if not vs:
            return (['assert', ['=', t.tree, t.tree]],
                    [((1, 1), t), ((1, 2), t)])
        v = vs[0]
        return ['assert', ['=', t.tree, v.tree]], [((1, 1), t), ((1, 2), v)]
    if ctx == 'let':
        if s == typed.REGLAN:
            return None, None
        lv = typed.atom(f'lv{i}', s)
        return (['assert', ['let', [[lv.tree, t.tree]],
                            ['=', lv.tree, lv.tree]]],
                [((1, 1, 0, 1), t), ((1, 2, 1), lv), ((1, 2, 2), lv)])
    if ctx == 'quant':
        if s == typed.REGLAN:
            return None, None
        q = typed.atom(f'q{i}', s)
        return (['assert', ['forall', [[q.tree, typed.sort_text(s)]],
                            ['=', q.tree, t.tree]]],
                [((1, 2, 1), q), ((1, 2, 2), t)])
    if ctx == 'define':
        if s == typed.REGLAN:
            return None, None
        a = typed.atom(f'a{i}', s)
        body = ['ite', ['=', a.tree, t.tree], a.tree, t.tree]
        return (['define-fun', f'g{i}', [[a.tree, typed.sort_text(s)]],
                 typed.sort_text(s), body],
                [((4, 1, 2), t), ((4, 3), t)])
    raise AssertionError(ctx)


def positions(node, t):
    """(node, T) for every term position of typed term t rooted at node."""
    out = []
    stack = [(node, t)]
    while stack:
        n, tt = stack.pop()
        out.append((n, tt))
        if tt.kids:
            for c, k in zip(n.data, tt.kids):
                if k is not None:
                    stack.append((c, k))
    return out


def node_at(node, path):
    for i in path:
        node = node.data[i]
    return node


def run_unit(unit):
    from ddsmt import smtlib
    from ddsmt.nodes import Node
    _, sort_key, lo, hi, ctx, fp_short, depth = unit
    part = common.part_result()
    out, levels = typed.generate(depth)
    terms = [t for s in sorted(out, key=repr) for t in out[s]
             if t.depth == depth or depth == 1][lo:hi]
    decls = typed.declarations(fp_short)
    cmds = []
    where = []
    for i, t in enumerate(terms):
        cmd, pos = wrap(t, lo + i, ctx)
        if cmd is None:
            continue
        cmds.append(cmd)
        where.append((len(decls) + len(cmds) - 1, pos, t))
    script = decls + cmds
    exprs = [sexp.list_to_node(c, Node) for c in script]
    try:
        with common.quiet():
            smtlib.collect_information(exprs)
    except Exception as e:  # noqa
        common.pviolation(part, f'exception|collect_information', {
            'brief': f'collect_information raises {e!r} on a well-sorted '
                     f'script', 'script': sexp.serialize_all(script)[:2000]})
        return part
    for ci, pos, t in where:
        cmd = exprs[ci]
        common.pcount(part, 'evaluations')
        common.pcount(part, 'distinct_nontrivial')
        for path, tt in pos:
            for n, ty in positions(node_at(cmd, path), tt):
                common.pcount(part, 'term_positions')
                judge(part, smtlib, n, ty, script[ci], ctx)
    if lo == 0 and not part['samples'] and cmds:
        part['samples'].append({'context': ctx,
                                'command': sexp.serialize(cmds[len(cmds) // 2])})
    return part


def judge(part, smtlib, n, ty, cmd, ctx):
    want = ty.sort
    try:
        with common.quiet():
            s = smtlib.get_sort(n)
            w = smtlib.get_bv_width(n)
    except Exception as e:  # noqa
        common.pviolation(
            part, f'exception|{type(e).__name__}|{head_of(ty)}', {
                'brief': f'get_sort/get_bv_width raises {e!r} at '
                         f'{sexp.serialize(ty.tree)!r} in '
                         f'{sexp.serialize(cmd)!r}',
                'command': cmd, 'term': ty.tree})
        return
    if s is not None:
        got = typed.sort_from_tree(sexp.node_to_list(s))
        common.pcount(part, 'sorts_inferred')
        if got != want:
            common.pviolation(
                part, f'wrong-sort|{head_of(ty)}|{want}', {
                    'brief': f'get_sort({sexp.serialize(ty.tree)}) = '
                             f'{sexp.serialize(sexp.node_to_list(s))}, actual '
                             f'sort {sexp.serialize(typed.sort_text(want))} '
                             f'(context {ctx}: {sexp.serialize(cmd)[:200]})',
                    'command': cmd, 'term': ty.tree, 'context': ctx})
    if w != -1:
        common.pcount(part, 'widths_inferred')
        if not (isinstance(want, tuple) and want[0] == 'BV'
                and want[1] == w):
            common.pviolation(
                part, f'wrong-width|{head_of(ty)}|{want}', {
                    'brief': f'get_bv_width({sexp.serialize(ty.tree)}) = {w},'
                             f' actual sort '
                             f'{sexp.serialize(typed.sort_text(want))} '
                             f'(context {ctx}: {sexp.serialize(cmd)[:200]})',
                    'command': cmd, 'term': ty.tree, 'context': ctx})


def head_of(ty):
    t = ty.tree
    if isinstance(t, str):
        return 'atom'
    h = t[0]
    return h if isinstance(h, str) else ' '.join(h[:2])


def consumers(rep):
    """Default constants and 'variables of the same sort' must be what the
    independent sort checker says they are."""
    from ddsmt import smtlib
    from ddsmt.nodes import Node
    decls = typed.declarations()
    exprs = [sexp.list_to_node(c, Node) for c in decls]
    smtlib.collect_information(exprs)
    env = typed.env_default()
    arity = {'uf': 2, 'pf': 1}
    for s in list(typed.variables()):
        sn = sexp.list_to_node(typed.sort_text(s), Node)
        rep.count('evaluations')
        for c in smtlib.get_default_constants(sn):
            tree = sexp.node_to_list(c)
            try:
                got = typed.check(tree, env)
            except typed.SortError as e:
                got = f'ill-sorted ({e})'
            if got != s:
                rep.violation(f'default-constant|{s}', {
                    'brief': f'default constant {sexp.serialize(tree)} for '
                             f'sort {sexp.serialize(typed.sort_text(s))} has '
                             f'sort {got}'})
        for v in smtlib.get_variables_with_sort(sn):
            name = str(v)
            if arity.get(name):
                rep.violation(f'variable-of-sort|{name}', {
                    'brief': f'get_variables_with_sort('
                             f'{sexp.serialize(typed.sort_text(s))}) offers '
                             f'the {arity[name]}-ary function symbol {name} '
                             f'as a variable of that sort'})
            elif env.get(name) != s:
                rep.violation(f'variable-of-sort|{name}', {
                    'brief': f'get_variables_with_sort('
                             f'{sexp.serialize(typed.sort_text(s))}) offers '
                             f'{name} of sort {env.get(name)}'})


def stale_tables(rep):
    """The tables must describe the script of the *last* collect_information:
    after a constructor has been removed it is no default constant any more
    (a sequence of two scripts, as in a run that accepts the removal)."""
    from ddsmt import smtlib
    from ddsmt.nodes import Node
    for decl_kind in ('declare-datatype', 'declare-datatypes'):
        def script(constrs):
            if decl_kind == 'declare-datatype':
                d = ['declare-datatype', 'Col', [[c] for c in constrs]]
            else:
                d = ['declare-datatypes', [['Col', '0']],
                     [[[c] for c in constrs]]]
            return [d, ['declare-const', 'c', 'Col'],
                    ['assert', ['=', 'c', constrs[0]]]]
        seen = []
        for constrs in (['red', 'green', 'blue'], ['red', 'green'], ['red']):
            exprs = [sexp.list_to_node(c, Node) for c in script(constrs)]
            smtlib.collect_information(exprs)
            rep.count('evaluations')
            sort = exprs[1].data[2]
            got = [str(c) for c in smtlib.get_default_constants(sort)]
            got2 = [str(c) for c in smtlib.get_default_constants(
                Node('Col'))]
            for g in (got, got2):
                if not set(g) <= set(constrs):
                    rep.violation(f'stale-default-constants|{decl_kind}', {
                        'brief': f'after re-collecting on a script whose '
                                 f'datatype has constructors {constrs} the '
                                 f'default constants are {g} (history: '
                                 f'{seen})'})
            seen.append(constrs)


def main(tier):
    rep = common.Reporter(PROP, 'exploration', tier)
    _init()
    units = []
    out1, _ = typed.generate(1)
    n1 = sum(len(v) for v in out1.values())
    for ctx in ('assert', 'let', 'quant', 'define'):
        for fp_short in (False, True):
            for lo in range(0, n1, BATCH):
                units.append(('t', None, lo, lo + BATCH, ctx, fp_short, 1))
    out2, _ = typed.generate(2)
    n2 = sum(1 for v in out2.values() for t in v if t.depth == 2)
    ctxs2 = ('assert', 'let', 'quant', 'define') if rep.tier == 'thorough' \
        else ('assert', )
    for ctx in ctxs2:
        for lo in range(0, n2, BATCH * 5):
            units.append(('t', None, lo, lo + BATCH * 5, ctx, False, 2))
    parts = common.pmap(run_unit, units, init=_init, chunksize=4)
    for p in parts:
        rep.merge(p)
    consumers(rep)
    stale_tables(rep)
    rep.set('terms_depth1', n1)
    rep.set('terms_depth2', n2)
    rep.set(
        'rule', f'all {n1} well-sorted terms of depth <= 1 (every operator of '
        'the table in ddv/typed.py x all combinations of up to 3 atoms per '
        'argument sort) in 4 contexts (asserted, let-bound, under forall, '
        f'define-fun body) x 2 FP sort spellings; all {n2} terms of depth 2 '
        '(one argument ranges over all depth-1 terms) asserted (thorough: '
        'all 4 contexts); every term position; default constants and '
        'variables-of-sort for every sort')
    rep.set('exhaustive', True)
    rep.assume('operator table and sort checker ddv/typed.py (written from '
               'the SMT-LIB theory documents)', 'numerals only in Int '
               'positions, decimals only in Real positions')
    return rep.finish()


def replay(rec):
    _init()
    from ddsmt import smtlib
    from ddsmt.nodes import Node
    r = rec['record']
    print(r['brief'])
    if 'command' not in r:
        return 1
    script = typed.declarations() + [r['command']]
    exprs = [sexp.list_to_node(c, Node) for c in script]
    smtlib.collect_information(exprs)
    # find the term by structure
    want = r['term']
    for n in __import__('ddsmt.nodes', fromlist=['dfs']).dfs(exprs[-1:]):
        if sexp.node_to_list(n) == want:
            s = smtlib.get_sort(n)
            print('get_sort:', s, 'get_bv_width:', smtlib.get_bv_width(n))
            break
    return 1
