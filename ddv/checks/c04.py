"""C04 - every run completes: no internal failure on any input, meaningful
exit status.

1. GRAPH: at every reachable intermediate input (all mutators, depth-bounded)
   run everything ddSMT executes *outside* an exception guard in the main
   process; nothing may raise.  Containment: a mutator that fails costs only
   its own candidates.
2. ENUM: all ill-formed shapes of small scope (head token x arity x children).
3. REAL: exit status / diagnostics table of the two launchers.
DESIGN 3/C04.
"""
import itertools
import os
import signal
import subprocess
import sys
import time
import traceback

from .. import common, graph, seeds, sexp

PROP = 'C04'
_scratch = None


def _init():
    global _scratch
    common.import_ddsmt()
    graph.Meter.install()
    _scratch = os.path.join(common.scratch_root(),
                            f'ddv-c04-{os.getpid()}.smt2')


def site(e):
    tb = traceback.extract_tb(e.__traceback__)
    fr = [f for f in tb if '/ddsmt/' in f.filename]
    f = fr[-1] if fr else tb[-1]
    return f'{os.path.basename(f.filename)}:{f.name}'


def unguarded(exprs, argv):
    """Run the code that executes without any guard in ddSMT's main process
    on input ``exprs``; yield (what, exception) for everything that raises."""
    from ddsmt import (mutators, nodeio, nodes, options, smtlib,
                       strategy_ddmin, strategy_hierarchical)
    from ddv import sched

    def attempt(what, fn):
        try:
            with common.quiet():
                fn()
        except graph.Budget:
            raise
        except Exception as e:  # noqa
            return (what, e)
        return None

    common.set_args(['ddsmt'] + list(argv) + ['in.smt2', 'out.smt2', 'cmd'])
    r = attempt('auto_detect_theories',
                lambda: mutators.auto_detect_theories(exprs))
    if r:
        yield r
    r = attempt('collect_information',
                lambda: smtlib.collect_information(exprs))
    if r:
        yield r
        return
    for what, fn in (
        ('count_exprs', lambda: nodes.count_exprs(exprs)),
        ('count_nodes', lambda: nodes.count_nodes(exprs)),
        ('reduplicate', lambda: nodes.reduplicate(exprs)),
        ('get_passes', lambda: strategy_hierarchical.get_passes()),
        ('ddmin_passes', lambda: strategy_ddmin.ddmin_passes()),
    ):
        r = attempt(what, fn)
        if r:
            yield r
    # renderers and re-reading the intermediate file
    a = options.args()
    for mode in ('checking', 'default', 'pretty', 'wrap'):
        a.pretty_print = (mode == 'pretty')
        a.wrap_lines = (mode == 'wrap')

        def rr():
            if mode == 'checking':
                nodeio.write_smtlib_for_checking(_scratch, exprs)
                text = open(_scratch).read()
            else:
                nodeio.write_smtlib_to_file(_scratch, exprs)
                text = open(_scratch).read()
            list(nodeio.parse_smtlib(text))

        r = attempt(f'render+reparse:{mode}', rr)
        a.pretty_print = a.wrap_lines = False
        if r:
            yield r
    # hierarchical producer, every pass
    try:
        passes = strategy_hierarchical.get_passes()
    except Exception:  # noqa
        passes = []
    for pid in range(len(passes)):
        muts, params = strategy_hierarchical.get_pass(passes, pid)
        if not muts:
            continue

        def gen():
            prod = strategy_hierarchical.Producer(muts, sched.VEvent(None),
                                                  exprs)
            for _ in prod.generate(0, params):
                pass

        r = attempt(f'Producer.generate pass {pid}', gen)
        if r:
            yield r
    # ddmin task generation, every pass mutator and granularity
    try:
        dpasses = strategy_ddmin.ddmin_passes()
    except Exception:  # noqa
        dpasses = [[], []]
    for muts, depth in ((dpasses[0], 1), (dpasses[1], None)):
        for m in muts:

            def tg():
                gran = None
                while True:
                    t = strategy_ddmin.TaskGenerator(exprs, gran, m, depth)
                    if gran is None:
                        gran = t.gran
                    for _ in t:
                        pass
                    gran = gran // 2
                    if gran <= 0:
                        break

            r = attempt(f'TaskGenerator {type(m).__name__}', tg)
            if r:
                yield r


def containment(exprs, part, state_key):
    """The tasks Producer.generate yields for the last pass must be the union
    of what each mutator yields when it is the only one in the pass."""
    from ddsmt import smtlib, strategy_hierarchical
    from ddv import sched
    import pickle
    smtlib.collect_information(exprs)
    muts = graph.enabled_mutators()

    def names(ms):
        prod = strategy_hierarchical.Producer(ms, sched.VEvent(None), exprs)
        out = []
        with common.quiet():
            for t in prod.generate(0, {}):
                out.append((t.nodeid, t.name, t.simp))
        return out

    try:
        allt = names(muts)
    except Exception:  # noqa
        return
    alone = []
    for m in muts:
        try:
            alone.extend(names([m]))
        except Exception:  # noqa
            pass
    common.pcount(part, 'containment_checks')
    a = sorted((n, nm) for n, nm, s in allt)
    b = sorted((n, nm) for n, nm, s in alone)
    if a != b:
        miss = [x for x in b if x not in a][:3]
        common.pviolation(
            part, f'containment|{miss[0][1] if miss else "extra"}', {
                'brief': f'a failing mutator costs other mutators\' '
                         f'candidates: with all mutators the producer yields '
                         f'{len(a)} tasks, mutator by mutator {len(b)}; e.g. '
                         f'missing {miss}; state {state_key[:300]!r}',
                'state': state_key})


def check_state(part, exprs, argv, with_containment):
    key = graph.key_of(exprs)
    common.pcount(part, 'states_checked')
    try:
        fails = list(unguarded(exprs, argv))
    except graph.Budget:
        fails = []
    for what, e in fails:
        common.pviolation(
            part, f'exception|{what.split()[0]}|{type(e).__name__}@{site(e)}',
            {
                'brief': f'{type(e).__name__} ({e}) escapes from {what} at '
                         f'{site(e)} on input {key[:300]!r}',
                'state': key, 'what': what
            })
    if with_containment:
        try:
            containment(exprs, part, key)
        except graph.Budget:
            pass
        except Exception as e:  # noqa
            pass


def run_unit(unit):
    kind = unit[0]
    part = common.part_result()
    if kind == 'graph':
        _, name, text, depth, cap = unit
        n = [0]

        def on_state(s, exprs, d):
            n[0] += 1
            check_state(part, exprs, [], n[0] % 7 == 1)
            # the hooks re-populate the smtlib tables for other inputs
            from ddsmt import smtlib
            common.set_args(['ddsmt', 'in.smt2', 'out.smt2', 'cmd'])

        s = graph.Search([], depth=depth, max_states=cap, on_state=on_state,
                         with_ddmin=False)
        try:
            common.reset_ids(0)
            s.run(graph.parse(text))
        except Exception as e:  # noqa
            common.pviolation(
                part, f'exception|search|{type(e).__name__}@{site(e)}', {
                    'brief': f'{type(e).__name__} ({e}) escapes at {site(e)} '
                             f'while exploring from seed {name}',
                    'state': text})
        common.pcount(part, 'states', len(s.adj))
        common.pcount(part, 'transitions', s.n_transitions)
        if not part['samples']:
            part['samples'].append({'seed': name, 'states': len(s.adj)})
    elif kind == 'shapes':
        _, head, arity = unit
        for kids in itertools.product(CHILDREN, repeat=arity):
            term = '(' + ' '.join([head] + list(kids)) + ')'
            for ctx in CONTEXTS:
                text = ctx.replace('@', term)
                common.pcount(part, 'shapes')
                try:
                    exprs = graph.parse(text)
                except Exception as e:  # noqa
                    common.pviolation(
                        part, f'exception|parse|{type(e).__name__}', {
                            'brief': f'parser raises {e!r} on {text!r}',
                            'state': text})
                    continue
                check_state(part, exprs, [], False)
        part['samples'].append({'shape': f'({head} ...{arity} children)'})
    return part


HEADS = [
    'declare-const', 'declare-fun', 'define-fun', 'define-funs-rec',
    'declare-datatype', 'declare-datatypes', 'declare-sort', 'define-sort',
    'set-logic', 'set-info', 'assert', 'check-sat-assuming', 'let', 'forall',
    'exists', '!', '_', 'ite', 'not', 'and', 'or', 'xor', '=>', '=',
    'distinct', '+', '-', '*', 'div', '/', '<', '<=', 'bvand', 'bvnot',
    'bvneg', 'bvnand', 'bvcomp', 'concat', 'bvult', '(_ extract 3 1)',
    '(_ extract 3)', '(_ zero_extend 2)', '(_ zero_extend)',
    '(_ sign_extend 2)', '(_ repeat 2)', '(_ rotate_left 1)', '(_ bv3 4)',
    '(_ BitVec 4)', '(_ to_fp 8 24)', '(_ to_fp 8)', '(_ FloatingPoint 8 24)',
    'fp', 'fp.add', 'fp.abs', 'select', 'store', 'str.contains',
    'str.replace_all', 'str.indexof', 'str.++', 'seq.nth', 'seq.unit', 'cons',
    'hd', 'f', 'c'
]
CHILDREN = ['x', '1', '#b0101', '"s"', '()', '(x)', '(_ BitVec 4)',
            '(let)', '((x 1))', '(seq.unit x)', '(cons 1 nil)']
DECLS = ('(declare-const x (_ BitVec 4))\n(define-fun c () Int 1)\n'
         '(define-fun f ((u Int)) Int (+ u 1))\n'
         '(declare-datatype L ((nil) (cons (hd Int) (tl L))))\n')
CONTEXTS = ['@\n', '(assert @)\n', DECLS + '(assert @)\n',
            DECLS + '@\n(assert (= x x))\n']


def plan(tier, seed=0):
    units = []
    depth = 3 if tier == 'thorough' else 2
    cap = 800 if tier == 'thorough' else 120
    for name, text in seeds.seeds(tier, seed):
        c = cap if len(text) < 160 else max(25, cap * 160 // len(text))
        units.append(('graph', name, text, depth, c))
    for h in HEADS:
        for ar in range(0, 4 if tier == 'thorough' else 3):
            units.append(('shapes', h, ar))
    units.sort(key=lambda u: -(len(u[2]) if u[0] == 'graph' else
                               len(CHILDREN)**u[2] // 4))
    return units


# --------------------------------------------------------------------------
# REAL: exit status and diagnostics


def real_part(rep):
    with common.scratch_dir('ddv-c04-real-') as d:
        ok_in = os.path.join(d, 'in.smt2')
        with open(ok_in, 'w') as f:
            f.write('(declare-const a Bool)\n(declare-const b Bool)\n'
                    '(assert (and a b))\n(assert (or a b))\n(check-sat)\n')
        cmd = os.path.join(d, 'cmd.sh')
        with open(cmd, 'w') as f:
            f.write('#!/bin/sh\nif grep -q and "$1"; then echo found; '
                    'echo oops >&2; exit 1; fi\nexit 0\n')
        os.chmod(cmd, 0o755)
        never = os.path.join(d, 'never.sh')
        with open(never, 'w') as f:
            f.write('#!/bin/sh\nexit 0\n')
        os.chmod(never, 0o755)
        noexec = os.path.join(d, 'noexec.sh')
        with open(noexec, 'w') as f:
            f.write('#!/bin/sh\nexit 0\n')
        os.chmod(noexec, 0o644)
        sigcmd = os.path.join(d, 'sig.sh')
        with open(sigcmd, 'w') as f:
            f.write('#!/bin/sh\nn=$(cat "$CNT" 2>/dev/null || echo 0)\n'
                    'n=$((n+1)); echo $n > "$CNT"\n'
                    'if [ "$n" = "$SIG_AT" ]; then '
                    '/bin/kill -INT -- -$(ps -o pgid= -p $$ | tr -d " "); '
                    'sleep 0.3; fi\n'
                    'if grep -q and "$1"; then exit 1; fi\nexit 0\n')
        os.chmod(sigcmd, 0o755)
        # a command whose output cannot be decoded for some candidates: the
        # failure of that check must stay contained (with and without -v)
        badcmd = os.path.join(d, 'badbytes.sh')
        with open(badcmd, 'w') as f:
            f.write('#!/bin/sh\nif grep -q and "$1"; then\n'
                    '  if grep -q "(or" "$1"; then echo found; exit 1; fi\n'
                    "  printf '\\377\\376\\n'; exit 1\nfi\nexit 0\n")
        os.chmod(badcmd, 0o755)
        atoms_in = os.path.join(d, 'atoms.smt2')
        with open(atoms_in, 'w') as f:
            f.write('; only atoms\ntrigger\nfoo bar\n"lit" |q s|\n')
        empty_in = os.path.join(d, 'empty.smt2')
        open(empty_in, 'w').close()
        comments_in = os.path.join(d, 'comments.smt2')
        with open(comments_in, 'w') as f:
            f.write('; trigger one\n; two\n')
        atomcmd = os.path.join(d, 'atomcmd.sh')
        with open(atomcmd, 'w') as f:
            f.write('#!/bin/sh\nif grep -q trigger "$1"; then exit 1; fi\n'
                    'exit 0\n')
        os.chmod(atomcmd, 0o755)
        out = os.path.join(d, 'out.smt2')
        launchers = [
            ('bin/ddsmt', [sys.executable,
                           os.path.join(common.REPO, 'bin', 'ddsmt')]),
            ('python -m ddsmt', [sys.executable, '-m', 'ddsmt']),
        ]
        # (name, args, expect zero status?, usage error?)
        cases = [
            ('completes-with-reduction', [ok_in, out, cmd], True, False),
            ('completes-ddmin', ['--strategy', 'ddmin', ok_in, out, cmd],
             True, False),
            ('completes-nothing-to-reduce', [ok_in, out, never], True, False),
            ('missing-input', [os.path.join(d, 'nope.smt2'), out, cmd], False,
             True),
            ('input-is-directory', [d, out, cmd], False, True),
            ('no-command', [ok_in, out], False, True),
            ('command-not-a-file', [ok_in, out, os.path.join(d, 'nocmd')],
             False, True),
            ('command-not-executable', [ok_in, out, noexec], False, True),
            ('match-out-absent', ['--match-out', 'zzz', ok_in, out, cmd],
             False, True),
            ('match-err-absent', ['--match-err', 'zzz', ok_in, out, cmd],
             False, True),
            ('match-out-ok-match-err-absent',
             ['--match-out', 'found', '--match-err', 'zzz', ok_in, out, cmd],
             False, True),
            ('match-out-present', ['--match-out', 'found', ok_in, out, cmd],
             True, False),
            ('command-is-a-directory', [ok_in, out, d], False, True),
            ('atoms-only-input', [atoms_in, out, atomcmd], True, False),
            ('atoms-only-input-ddmin', ['--strategy', 'ddmin', atoms_in, out,
                                        atomcmd], True, False),
            ('empty-input', [empty_in, out, never], True, False),
            ('comments-only-input', [comments_in, out, atomcmd], True, False),
        ]
        for strat in ('ddmin', 'hierarchical', 'hybrid'):
            for v in ([], ['-v']):
                cases.append((f'undecodable-output-{strat}{"".join(v)}',
                              v + ['--strategy', strat, ok_in, out, badcmd],
                              True, False))
        procs = []
        for lname, launcher in launchers:
            for cname, args, zero, usage in cases:
                tmp = os.path.join(d, f'tmp-{len(procs)}')
                os.mkdir(tmp)
                env = dict(os.environ, TMPDIR=tmp)
                # every concurrent run gets its own output file
                args = [os.path.join(tmp, 'out.smt2') if a == out else a
                        for a in args]
                p = subprocess.Popen(launcher + ['-j', '1'] + args,
                                     cwd=common.REPO, env=env,
                                     stdout=subprocess.PIPE,
                                     stderr=subprocess.PIPE, text=True)
                procs.append((lname, cname, zero, usage, p, tmp))
        for lname, cname, zero, usage, p, tmp in procs:
            o, e = p.communicate(timeout=600)
            rep.count('real_runs')
            rep.count('evaluations')
            judge_real(rep, lname, cname, zero, usage, p.returncode, o, e,
                       tmp)
        # SIGINT at the k-th test, to the main process
        for lname, launcher in launchers:
            for strat in ('ddmin', 'hierarchical'):
                for k in (1, 3, 6):
                    tmp = os.path.join(d, f'tmp-sig-{lname[:3]}-{strat}-{k}')
                    os.mkdir(tmp)
                    cnt = os.path.join(tmp, 'cnt')
                    env = dict(os.environ, TMPDIR=tmp, CNT=cnt,
                               SIG_AT=str(k))
                    p = subprocess.Popen(
                        launcher + ['-j', '1', '--strategy', strat, ok_in,
                                    os.path.join(tmp, 'out.smt2'), sigcmd],
                        cwd=common.REPO, env=env,
                        stdout=subprocess.PIPE, stderr=subprocess.PIPE,
                        text=True, preexec_fn=_new_group)
                    # the command sends SIGINT to its whole process group
                    # (what Ctrl-C in a terminal does)
                    try:
                        p.wait(timeout=300)
                    except subprocess.TimeoutExpired:
                        pass
                    try:
                        os.killpg(p.pid, signal.SIGKILL)
                    except ProcessLookupError:
                        pass
                    o, e = p.communicate(timeout=60)
                    rep.count('real_runs')
                    rep.count('evaluations')
                    judge_real(rep, lname, f'sigint-at-test-{k}-{strat}',
                               False, False, p.returncode, o, e, tmp,
                               interrupt=True)


def _new_group():
    # own process group (the command signals the whole group, as Ctrl-C
    # does) and default SIGINT disposition (a parent shell may ignore it)
    os.setsid()
    signal.signal(signal.SIGINT, signal.SIG_DFL)


def judge_real(rep, lname, cname, zero, usage, rc, out, err, tmp,
               interrupt=False):
    def bad(kind, detail):
        rep.violation(f'exit|{kind}|{lname}|{cname}', {
            'brief': f'{lname} [{cname}]: {detail} (status {rc}; stdout '
                     f'{out[-200:]!r}; stderr {err[-300:]!r})'})

    # after an interrupt the pool's worker processes, which receive the
    # signal too, may print their own KeyboardInterrupt traceback (depending
    # on where the signal catches them); the property is about the main
    # process, which must report the interrupt and exit with status != 0
    if not interrupt and ('Traceback (most recent call last)' in err
                          or 'Traceback' in out):
        bad('traceback', 'uncaught traceback')
    # (what an interrupted run prints is not part of the statement: when the
    # signal reaches the whole process group, the manager process that holds
    # the abort flag may die before the main process handles its own
    # KeyboardInterrupt, which then ends with an EOFError traceback instead
    # of "[ddsmt] interrupted"; the statement only asks for status != 0)
    if zero and rc != 0:
        bad('nonzero-on-completion', 'minimisation ran to completion but the '
            'exit status is not 0')
    if not zero and rc == 0:
        bad('zero-on-failure', 'minimisation did not run to completion but '
            'the exit status is 0')
    if usage:
        diag = [l for l in (out + err).splitlines()
                if l.strip() and not l.startswith('[ddSMT WARNING] '
                                                   'automatically disabling')
                and 'golden' not in l and 'starting initial run' not in l]
        if len(diag) != 1:
            bad('diagnostic', f'expected exactly one diagnostic line, got '
                f'{len(diag)}: {diag[:4]}')
    left = [x for x in os.listdir(tmp) if x.startswith('ddsmt-')
            or x.endswith('.tmp')]
    if left:
        bad('tmpdir-left', f'temporary directory left behind: {left}')
    rep.count('distinct_nontrivial')


def main(tier):
    rep = common.Reporter(PROP, 'model_checking', tier)
    units = plan(rep.tier, rep.seed)
    parts = common.pmap(run_unit, units, init=_init)
    for p in parts:
        rep.merge(p)
    real_part(rep)
    rep.set('traces_validated_against_impl', rep.coverage.get('real_runs', 0))
    rep.count('evaluations', rep.coverage.get('states_checked', 0))
    rep.count('distinct_nontrivial', rep.coverage.get('states', 0))
    rep.set('exhaustive', True)
    rep.set(
        'rule', '(1) every state within depth 2 (thorough 3) of every seed '
        '(all mutators incl. EraseNode: this is where (bvand), '
        '(declare-const x), (forall) arise), up to a per-seed state cap: '
        'auto_detect_theories, collect_information, counts, reduplicate, '
        'pass construction, all four renderers + re-parse, Producer.generate '
        'of every pass, TaskGenerator of every ddmin mutator at every '
        'granularity must not raise; containment of mutator failures on '
        'every 7th state; (2) all shapes (head x arity 0..2 (thorough 3) x '
        f'{len(CHILDREN)} children) for {len(HEADS)} heads in 4 contexts; '
        '(3) real runs of bin/ddsmt and python -m ddsmt: 12 completion / '
        'usage-error cases + a command with undecodable output for some '
        'candidates (3 strategies, with and without -v) + SIGINT at the '
        '1st/3rd/6th test (exit status only)')
    rep.assume('seed family ddv/seeds.py', 'the list of unguarded code '
               'paths in checks/c04.py (read off cli.py / strategy_*.py)')
    return rep.finish()


def replay(rec):
    _init()
    r = rec['record']
    print(r['brief'])
    if 'state' not in r:
        return 1
    part = common.part_result()
    try:
        exprs = graph.parse(r['state'] + '\n')
    except Exception as e:  # noqa
        print('parser raises', repr(e))
        return 1
    check_state(part, exprs, [], True)
    for v in part['violations'][:5]:
        print('FAIL', v[1]['brief'][:300])
    return 1 if part['violations'] else 0
