"""C18 - sequential runs are reproducible.

SCHED: -j 1; all schedules of the one-worker pool up to the budget x
PYTHONHASHSEED in 0..7 (one interpreter per seed); the sequence of accepted
inputs and the output bytes must be identical across all of them.
REAL: bin/ddsmt -j 1 with a command that delays its k-th invocation, x hash
seeds.  DESIGN 3/C18.
"""
import json
import os
import re
import subprocess
import sys

from .. import common, explore, scenarios as S, sched

PROP = 'C18'
FRESH_NAME = re.compile(r'x\d+__fresh')

FRESH = '''(declare-const a Int)
(declare-const b Int)
(assert (> (+ (* a b) (* a b)) (- a b)))
(assert (< (* a b) 10))
(check-sat)
'''


# inputs on which several mutators of one group compete and the command
# accepts all of them: the result depends on the order in which they are tried
CONFL = '''(declare-const a Bool)
(declare-const b Bool)
(assert (xor a false))
(assert (=> a b (not b)))
(assert (not (and a (not (not b)))))
(check-sat)
'''
CONFL_ARITH = '''(declare-const n Int)
(declare-const m Int)
(assert (not (<= n 50 m)))
(assert (>= (+ n 10) (* m 20)))
(check-sat)
'''
CONFL_BV = '''(declare-const x (_ BitVec 8))
(assert (= ((_ zero_extend 4) ((_ zero_extend 4) x)) (concat #x00 (bvnot (bvnot #xab)) )))
(assert (= (bvcomp x #x12) #b1))
(check-sat)
'''


def menu(tier):
    scn = []
    b = 2 if tier == 'thorough' else 1
    fam = [('bool5', S.BOOL5, ('has', ['and', 'b']), 'default'),
           ('bv', S.BV, ('has', ['bvadd']), 'default'),
           ('int', S.INT, ('has', ['not', '=']), 'default'),
           ('str', S.STR, ('has', ['str.len', 't']), 'default'),
           ('binders', S.BINDERS, ('has', ['forall']), 'default'),
           ('fresh', FRESH, ('has', ['>', '<']), 'default'),
           ('fresh2', FRESH, ('count', '*', 1), 'default'),
           ('asserts8', S.ASSERTS8, ('has', ['xor', 'p']), 'core'),
           ('consts', S.CONSTS, ('count', '>', 2), 'default'),
           ('commented', S.COMMENTED, ('has', ['or']), 'default'),
           ('confl', CONFL, ('has', ['a']), 'default'),
           ('confl2', CONFL, ('count', 'assert', 3), 'default'),
           ('confl-arith', CONFL_ARITH, ('has', ['n', 'm']), 'default'),
           ('confl-bv', CONFL_BV, ('has', ['x']), 'default')]
    # commands that accept exactly a few competing rewrites of one term: the
    # result shows which of the competing mutators was tried first
    for k in (3, 6):
        fam.append((f'confl-k{k}', CONFL, ('and', ('count', '(', k),
                                           ('has', ['a'])), 'default'))
    shapes = [
        ('xor', '(declare-const a Bool)\n(assert (xor a false))\n',
         ['( xor a false )', '( distinct a false )', '( xor a )']),
        ('nary', '(declare-const n Int)\n(declare-const m Int)\n'
         '(assert (<= n 5 m))\n',
         ['( <= n 5 m )', '( and ( <= n 5 ) ( <= 5 m ) )', '( < n 5 m )',
          '( = n 5 m )']),
        ('negrel', '(declare-const n Int)\n(assert (not (distinct n 5)))\n',
         ['( not ( distinct n 5 ) )', '( = n 5 )', '( not ( = n 5 ) )']),
        ('bvcomp', '(declare-const x (_ BitVec 4))\n(declare-const y '
         '(_ BitVec 4))\n(assert (= #b1 (bvcomp x y)))\n',
         ['( = #b1 ( bvcomp x y ) )', '( = x y )',
          '( = ( _ bv1 1 ) ( bvcomp x y ) )']),
        ('strrepl', '(declare-const s String)\n(assert (= s '
         '(str.replace_all s "ab" "c")))\n',
         ['( str.replace_all s "ab" "c" )', '( str.replace s "ab" "c" )',
          '( str.replace_all s "" "c" )', '( str.replace_all s "b" "c" )',
          '( str.replace_all s "a" "c" )']),
        ('demorgan', '(declare-const a Bool)\n(declare-const b Bool)\n'
         '(assert (not (and a (=> a b))))\n',
         ['( not ( and a ( => a b ) ) )', '( or ( not a ) ( not ( => a b ) ) )',
          '( not ( and a ( or ( not a ) b ) ) )']),
    ]
    shapes.append(
        ('dtconst', '(declare-datatype Col ((red) (green) (blue)))\n'
         '(declare-const c Col)\n(declare-const d Col)\n'
         '(assert (distinct c d))\n',
         ['( distinct c d )', '( distinct red d )', '( distinct green d )',
          '( distinct blue d )', '( distinct c red )', '( distinct c green )',
          '( distinct c blue )']))
    shapes.append(
        ('reducebw', '(declare-const p (_ BitVec 8))\n'
         '(declare-const q (_ BitVec 8))\n(declare-const r (_ BitVec 8))\n'
         '(declare-const s (_ BitVec 8))\n'
         '(assert (= (bvadd p q) (bvadd r s)))\n',
         ['( bvadd p q ) ( bvadd r s )']))
    for name, inp, alts in shapes:
        model = ('anyof', alts)
        if name == 'dtconst':
            # the declarations have to stay, or nothing has a sort any more
            model = ('and', model, ('count', 'declare-const', 2),
                     ('has', ['declare-datatype', 'red', 'green', 'blue']))
        fam.append((f'shape-{name}', inp, model, 'default'))
    for strat in S.STRATEGIES:
        for eager in (False, True):
            scn.append(S.mk(f'c18/table-window/{strat}/' +
                            ('eager' if eager else 'fill'), S.WINDOW_INPUT,
                            S.WINDOW_MODEL, strat, 1, S.WINDOW_ARGS,
                            budget=2 if eager else b, eager_pull=eager))
    for name, inp, model, ms in fam:
        for strat in S.STRATEGIES:
            scn.append(S.mk(f'c18/{name}/{strat}', inp, model, strat, 1,
                            S.MUTATOR_SETS[ms],
                            budget=b if name in ('fresh', 'bool5')
                            else 1))
    return scn


def budgets_of(scn):
    return {'sched': scn.get('budget', 0), 'accept': 0}


def child_main():
    """Runs in an interpreter with a given PYTHONHASHSEED: explore the whole
    menu, print one JSON line per scenario."""
    tier = sys.argv[2]
    scns = menu(tier)

    def one(i):
        scn = scns[i]
        outs = {}
        n = [0]
        stats = {}

        def on(ch, x):
            n[0] += 1
            chain = [' '.join(t) for t in sched.accepted_chain(x)]
            key = json.dumps([chain, (x.out_bytes or b'').decode(
                'utf-8', 'replace'), x.crash and x.crash[:2], x.rc])
            if key not in outs:
                outs[key] = [c for _, c in ch.vector()]
            for k, v in x.rt.stats.items():
                stats[k] = stats.get(k, 0) + v
            stats['points'] = stats.get('points', 0) + x.rt.n_points

        explore.explore(lambda ch: sched.run_once(scn, ch), budgets_of(scn),
                        on)
        return scn['name'], n[0], outs, stats

    res = common.pmap(one, list(range(len(scns))), init=sched._init_worker,
                      nproc=2)
    for name, n, outs, stats in res:
        print('C18RESULT ' + json.dumps({'name': name, 'n': n, 'outs': outs,
                                         'stats': stats}))


def main(tier):
    rep = common.Reporter(PROP, 'model_checking', tier)
    seeds = list(range(8 if rep.tier == 'quick' else 12))
    procs = []
    for s in seeds:
        env = dict(os.environ, PYTHONHASHSEED=str(s), DDV_NPROC='2')
        procs.append((s, subprocess.Popen(
            [sys.executable, '-c',
             'import sys; sys.path.insert(0, %r); '
             'from ddv.checks import c18; c18.child_main()' % common.VERIF,
             'child', rep.tier],
            env=env, stdout=subprocess.PIPE, stderr=subprocess.PIPE,
            text=True, cwd=common.VERIF)))
    per = {}
    for s, p in procs:
        out, err = p.communicate()
        if p.returncode != 0:
            raise common.HarnessError(f'seed {s} child failed: {err[-2000:]}')
        for line in out.splitlines():
            if line.startswith('C18RESULT '):
                r = json.loads(line[10:])
                per.setdefault(r['name'], {})[s] = r
    scns = {s['name']: s for s in menu(rep.tier)}
    for name, by_seed in per.items():
        allouts = {}
        for s, r in by_seed.items():
            rep.count('executions', r['n'])
            for k, v in r['stats'].items():
                rep.count(k, v)
            for key, vec in r['outs'].items():
                allouts.setdefault(key, (s, vec))
        rep.count('distinct_outcomes', len(allouts))
        rep.count('scenario_seed_pairs', len(by_seed))
        if len(allouts) > 1:
            keys = sorted(allouts)
            # known finding KF-C18-1: outcomes that differ only in the
            # number inside names x<id>__fresh (ids race between producer
            # thread and worker); anything else is a violation
            normed = set(FRESH_NAME.sub('x#__fresh', k) for k in keys)
            kf = 'fresh-name-numbering' if len(normed) == 1 else None
            a, b = json.loads(keys[0]), json.loads(keys[1])
            where = 'output bytes' if a[0] == b[0] else 'accepted sequence'
            rep.violation(
                f'C18|outcome-depends-on-schedule-or-hash-seed|{name}', {
                    'brief': f'scenario {name}: {len(allouts)} different '
                             f'outcomes over schedules/hash seeds ({where} '
                             f'differ): e.g. seed {allouts[keys[0]][0]} gives'
                             f' {a[1]!r}, seed {allouts[keys[1]][0]} gives '
                             f'{b[1]!r}',
                    'scenario': scns[name],
                    'witnesses': [{'seed': allouts[k][0],
                                   'choices': allouts[k][1]} for k in keys[:2]]
                }, kf_sig=kf)
        elif len(rep.coverage['samples']) < 2:
            rep.sample({'scenario': name, 'argv': scns[name]['argv'],
                        'seeds': sorted(by_seed),
                        'executions_per_seed': by_seed[0]['n'],
                        'output': json.loads(next(iter(allouts)))[1][:200]})
    n_scn = len(per)
    rep.set('states', max(1, rep.coverage.get('points', 0)))
    rep.set('transitions', max(1, rep.coverage.get('points', 0)))
    rep.set('traces_validated_against_impl', 0)
    rep.set('evaluations', rep.coverage.get('executions', 0))
    rep.set('distinct_nontrivial', n_scn)
    rep.set('hash_seeds', seeds)
    rep.set('rule', 'for each of %d scenarios (-j 1, 3 strategies): all '
            'schedules of the one-worker pool up to 1-2 (thorough 3) '
            'deviations x PYTHONHASHSEED in %s; outcome = (sequence of '
            'accepted token sequences, output bytes); states/transitions = '
            'scheduling points executed' % (n_scn, seeds))
    rep.set('exhaustive', True)
    rep.assume('virtual pool abstraction (DESIGN 2.5) with one worker',
               'node ids are allocated from one counter shared by the '
               'producer and the worker, as in the real program')
    real_part(rep)
    return rep.finish()


def real_part(rep):
    """bin/ddsmt -j 1 with a real command that delays its k-th invocation."""
    cases = []
    with common.scratch_dir('ddv-c18-') as d:
        cmd = os.path.join(d, 'cmd.sh')
        with open(cmd, 'w') as f:
            f.write('#!/bin/sh\n'
                    'n=$(cat "$C18_CNT" 2>/dev/null || echo 0)\n'
                    'n=$((n+1)); echo $n > "$C18_CNT"\n'
                    'if [ "$n" = "$C18_DELAY_AT" ]; then sleep 0.3; fi\n'
                    'if grep -q "not" "$1" && grep -q "=" "$1"; then exit 1; '
                    'fi\nexit 0\n')
        os.chmod(cmd, 0o755)
        infile = os.path.join(d, 'in.smt2')
        with open(infile, 'w') as f:
            f.write(FRESH.replace('(assert (< (* a b) 10))',
                                  '(assert (not (= (* a b) 10)))'))
        outs = {}
        runs = []
        for strat in ('ddmin', 'hierarchical'):
            for seed in (0, 3):
                for delay_at in (0, 2, 5, 9):
                    runs.append((strat, seed, delay_at))
        procs = []
        for i, (strat, seed, delay_at) in enumerate(runs):
            out = os.path.join(d, f'out{i}.smt2')
            tmp = os.path.join(d, f'tmp{i}')
            os.mkdir(tmp)
            env = dict(os.environ, PYTHONHASHSEED=str(seed), TMPDIR=tmp,
                       C18_CNT=os.path.join(d, f'cnt{i}'),
                       C18_DELAY_AT=str(delay_at))
            procs.append((strat, seed, delay_at, out, subprocess.Popen(
                [sys.executable, os.path.join(common.REPO, 'bin', 'ddsmt'),
                 '--strategy', strat, '-j', '1', infile, out, cmd],
                env=env, stdout=subprocess.PIPE, stderr=subprocess.PIPE,
                cwd=common.REPO)))
        for strat, seed, delay_at, out, p in procs:
            p.communicate(timeout=600)
            data = open(out, 'rb').read() if os.path.exists(out) else None
            outs.setdefault(strat, {}).setdefault(data, []).append(
                (seed, delay_at))
            rep.count('real_runs')
        for strat, o in outs.items():
            if len(o) > 1:
                ks = list(o)
                normed = {FRESH_NAME.sub('x#__fresh', (k or b'').decode())
                          for k in ks}
                rep.violation(f'C18|real-run-output-differs|{strat}', {
                    'brief': f'bin/ddsmt -j 1 --strategy {strat}: output '
                             f'bytes differ between (seed, delayed '
                             f'invocation) {o[ks[0]][:2]} and {o[ks[1]][:2]}:'
                             f' {ks[0]!r} vs {ks[1]!r}'},
                              kf_sig='fresh-name-numbering'
                              if len(normed) == 1 else None)
    rep.count('traces_validated_against_impl', rep.coverage.get('real_runs',
                                                                 0))


def replay(rec):
    print(rec['record'].get('brief'))
    r = rec['record']
    if 'witnesses' not in r:
        return 1
    from .. import schedcheck
    outs = set()
    for w in r['witnesses']:
        env = dict(os.environ, PYTHONHASHSEED=str(w['seed']))
        code = ('import sys,json; sys.path.insert(0,%r); '
                'from ddv import sched, explore, schedcheck; '
                'scn=json.loads(sys.argv[1]); '
                'scn["model"]=schedcheck.tuplify(scn["model"]); '
                'x=sched.run_once(scn, explore.Chooser([(None,c) for c in '
                'json.loads(sys.argv[2])])); print(repr(x.out_bytes))'
                % common.VERIF)
        o = subprocess.run([sys.executable, '-c', code,
                            json.dumps(r['scenario']),
                            json.dumps(w['choices'])], env=env,
                           capture_output=True, text=True)
        print('seed', w['seed'], o.stdout.strip()[:300], o.stderr[-300:])
        outs.add(o.stdout)
    return 1 if len(outs) > 1 else 0
