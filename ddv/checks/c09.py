"""C09 - a candidate is accepted iff it matches the golden run as documented.

ENUM + REAL: (a) the full decision table of checker.matches_golden;
(b) every combination of comparison options x outcome classes through the
real checker.do_golden_runs / checker.check with real subprocesses;
(c) the argv the command sees.  Oracle: the rule of the statement, written
independently here.  DESIGN 3/C09.
"""
import itertools
import os
import stat

from .. import common

PROP = 'C09'

STREAMS = ['', 'A', 'xAy', 'B']


def stream_ok(ignored, match, golden, run):
    if ignored:
        return True
    if match:
        return match in run
    return run == golden


def rule(golden, run, ign_out, ign_err, m_out, m_err):
    return (run[0] == golden[0] and stream_ok(ign_out, m_out, golden[1],
                                              run[1])
            and stream_ok(ign_err, m_err, golden[2], run[2]))


def _init():
    common.import_ddsmt()


# -- (a) -------------------------------------------------------------------


def part_a(unit):
    from ddsmt import checker
    _, ign_out, ign_err, m_out, m_err = unit
    part = common.part_result()
    outcomes = list(itertools.product([0, 1], STREAMS, STREAMS))
    for g in outcomes:
        for r in outcomes:
            common.pcount(part, 'evaluations')
            exp = rule(g, r, ign_out, ign_err, m_out, m_err)
            try:
                got = checker.matches_golden(
                    checker.RunInfo(g[0], g[1], g[2], 0),
                    checker.RunInfo(r[0], r[1], r[2], 0), ign_out, ign_err,
                    m_out, m_err)
            except Exception as e:  # noqa
                got = f'exception {e!r}'
            if got is not exp and got != exp:
                common.pviolation(
                    part, f'matches_golden|{ign_out},{ign_err},{m_out},'
                    f'{m_err}|{got}', {
                        'brief': f'matches_golden(golden={g}, run={r}, '
                                 f'ignore_out={ign_out}, ignore_err='
                                 f'{ign_err}, match_out={m_out!r}, match_err'
                                 f'={m_err!r}) = {got}, rule says {exp}',
                        'part': 'a', 'unit': list(unit), 'golden': list(g),
                        'run': list(r)})
            if exp != (g == r):
                common.pcount(part, 'distinct_nontrivial')
    return part


# -- (b) -------------------------------------------------------------------

SCRIPT = '''#!/bin/sh
if [ -n "$DDV_LOG" ]; then printf '%s\\n' "{tag} $*" >> "$DDV_LOG"; fi
for last; do :; done
. "$last"
if [ -n "${{{s}}}" ]; then sleep "${{{s}}}"; fi
printf '%s' "${o}"; printf '%s' "${r}" >&2; exit ${e}
'''


def write_script(path, tag):
    v = ('O', 'R', 'E', 'S') if tag == 'main' else ('O2', 'R2', 'E2', 'S2')
    with open(path, 'w') as f:
        f.write(SCRIPT.format(tag=tag, o=v[0], r=v[1], e=v[2], s=v[3]))
    os.chmod(path, os.stat(path).st_mode | stat.S_IEXEC | stat.S_IXGRP
             | stat.S_IXOTH)


def write_spec(path, main, cc=(1, 'xAy', 'xAy')):
    with open(path, 'w') as f:
        f.write(f"E={main[0]}\nO='{main[1]}'\nR='{main[2]}'\n"
                f"E2={cc[0]}\nO2='{cc[1]}'\nR2='{cc[2]}'\n")


GOLDEN = (1, 'xAy', 'xAy')
CAND = list(itertools.product([1, 0], ['xAy', 'A', 'B'], ['xAy', 'A', 'B'])) + \
    [(1, 'xAy ', 'xAy'), (1, 'xAy', ' xAy'), (1, 'xAy\n', 'xAy'),
     (1, 'xAy', 'xAy\n\n')]


def part_b(unit):
    from ddsmt import checker, options
    (_, ign_output, ign_out, ign_err, m_out, m_err, cc, ign_cc, m_out_cc,
     m_err_cc, unchecked) = unit
    part = common.part_result()
    with common.scratch_dir('ddv-c09-') as d:
        main_s = os.path.join(d, 'cmd.sh')
        cc_s = os.path.join(d, 'cc.sh')
        write_script(main_s, 'main')
        write_script(cc_s, 'cc')
        infile = os.path.join(d, 'in.smt2')
        write_spec(infile, GOLDEN, GOLDEN)
        log = os.path.join(d, 'log')
        os.environ['DDV_LOG'] = log
        argv = ['ddsmt', '--timeout', '120', '--timeout-cc', '120']
        if ign_output:
            argv.append('--ignore-output')
        if ign_out:
            argv.append('--ignore-out')
        if ign_err:
            argv.append('--ignore-err')
        if m_out:
            argv += ['--match-out', 'A']
        if m_err:
            argv += ['--match-err', 'A']
        if cc:
            argv += ['-c', cc_s]
            if ign_cc:
                argv.append('--ignore-output-cc')
            if m_out_cc:
                argv += ['--match-out-cc', 'A']
            if m_err_cc:
                argv += ['--match-err-cc', 'A']
        if unchecked:
            argv.append('--unchecked')
        argv += [infile, os.path.join(d, 'out.smt2'), main_s]
        common.set_args(argv)
        try:
            with common.quiet():
                checker.do_golden_runs()
        except SystemExit as e:
            common.pviolation(part, f'check|golden-rejected|{argv[1:-3]}', {
                'brief': f'do_golden_runs exited with {e.code} although the '
                         f'golden output contains the match strings; '
                         f'options {argv[1:-3]}', 'part': 'b',
                'unit': list(unit)})
            return part
        cand = os.path.join(d, 'cand.smt2')
        if unchecked:
            mains = [(1, 'xAy', 'xAy'), (0, 'B', 'B'), (1, 'A', 'B')]
        else:
            mains = CAND
        for mo in mains:
            exp_main = unchecked or rule(
                GOLDEN, mo, ign_output or ign_out, ign_output or ign_err,
                'A' if m_out else None, 'A' if m_err else None)
            ccs = CAND if (cc and exp_main and not unchecked) else [GOLDEN]
            for co in ccs:
                exp = exp_main
                if cc and exp_main and not unchecked:
                    exp = rule(GOLDEN, co, ign_cc, ign_cc,
                               'A' if m_out_cc else None,
                               'A' if m_err_cc else None)
                write_spec(cand, mo, co)
                if os.path.exists(log):
                    os.unlink(log)
                common.pcount(part, 'evaluations')
                common.pcount(part, 'check_calls')
                try:
                    got = checker.check(cand)
                except Exception as e:  # noqa
                    got = f'exception {e!r}'
                ran = open(log).read().split('\n') if os.path.exists(
                    log) else []
                ran = [x.split(' ')[0] for x in ran if x]
                if unchecked:
                    exp_ran = []
                elif cc and exp_main:
                    exp_ran = ['main', 'cc']
                else:
                    exp_ran = ['main']
                bad = None
                if got is not exp and got != exp:
                    bad = f'verdict {got}, rule says {exp}'
                elif ran != exp_ran and not (cc and not exp_main and
                                             ran == ['main']):
                    bad = f'commands run {ran}, expected {exp_ran}'
                if bad:
                    common.pviolation(
                        part, f'check|{argv[5:-3]}|{bad.split(",")[0]}', {
                            'brief': f'check(): options {argv[5:-3]} '
                                     f'candidate main={mo} cc={co} (golden '
                                     f'{GOLDEN}): {bad}',
                            'part': 'b', 'unit': list(unit),
                            'main': list(mo), 'cc': list(co)})
                if exp != (mo == GOLDEN and co == GOLDEN):
                    common.pcount(part, 'distinct_nontrivial')
        if len(part['samples']) < 1 and cc and m_out and not unchecked:
            part['samples'].append({
                'options': argv[5:-3], 'golden': GOLDEN,
                'candidate_main': CAND[4], 'candidate_cc': CAND[7]})
    return part


# -- (c) -------------------------------------------------------------------


def part_c(unit):
    """argv seen by the command, through tmpfiles + checker.check_exprs."""
    from ddsmt import checker, nodeio, options, tmpfiles
    _, inname, nargs, cc_args, unchecked = unit
    part = common.part_result()
    with common.scratch_dir('ddv-c09c-') as d:
        os.environ['TMPDIR'] = d
        import tempfile
        tempfile.tempdir = None
        main_s = os.path.join(d, 'cmd.sh')
        cc_s = os.path.join(d, 'cc.sh')
        for path, tag in ((main_s, 'main'), (cc_s, 'cc')):
            with open(path, 'w') as f:
                f.write('#!/bin/sh\nprintf \'%s\\n\' "' + tag +
                        ' $*" >> "$DDV_LOG"\nexit 0\n')
            os.chmod(path, 0o755)
        infile = os.path.join(d, inname)
        with open(infile, 'w') as f:
            f.write('(assert a)\n')
        outname = 'out.txt' if inname.endswith('.smt2') else 'out.smt2'
        log = os.path.join(d, 'log')
        os.environ['DDV_LOG'] = log
        extra = ['--flag', 'value with blank'][:nargs]
        argv = ['ddsmt', '--timeout', '120', '--timeout-cc', '120']
        if cc_args is not None:
            argv += ['-c', ' '.join([cc_s] + ['-x', '-y'][:cc_args])]
        if unchecked:
            argv.append('--unchecked')
        argv += [infile, os.path.join(d, outname), main_s] + extra
        common.set_args(argv)
        try:
            with common.quiet():
                tmpfiles.init()
                tmpfiles.copy_binaries()
                checker.do_golden_runs()
                if os.path.exists(log):
                    os.unlink(log)
                exprs = list(nodeio.parse_smtlib('(assert b)\n'))
                verdict = checker.check_exprs(exprs)
        finally:
            t = tmpfiles.__dict__.get('__TMPDIR')
            tmpname = t.name if t else None
        lines = open(log).read().splitlines() if os.path.exists(log) else []
        common.pcount(part, 'evaluations')
        common.pcount(part, 'distinct_nontrivial')
        ext = os.path.splitext(inname)[1]
        bad = []
        if unchecked:
            if lines:
                bad.append(f'--unchecked but commands ran: {lines}')
            if verdict is not True:
                bad.append(f'--unchecked verdict {verdict}')
        else:
            want = [('main', extra)]
            if cc_args is not None:
                want.append(('cc', ['-x', '-y'][:cc_args]))
            if len(lines) != len(want):
                bad.append(f'{len(lines)} invocations, expected {len(want)}: '
                           f'{lines}')
            for line, (tag, args) in zip(lines, want):
                prefix = ' '.join([tag] + args) + ' '
                if not line.startswith(prefix):
                    bad.append(f'argv {line!r} does not start with the '
                               f'original arguments {prefix!r}')
                    continue
                path = line[len(prefix):]
                if ' ' in path or not os.path.isabs(path):
                    bad.append(f'not exactly one file name after the '
                               f'arguments: {line!r}')
                elif os.path.splitext(path)[1] != ext:
                    bad.append(f'candidate file {path!r} does not have the '
                               f'input extension {ext!r}')
                elif tmpname and not path.startswith(tmpname):
                    bad.append(f'candidate file {path!r} outside the '
                               f'temporary directory')
        for b in bad:
            common.pviolation(part, f'argv|{b.split(":")[0][:40]}|{inname}', {
                'brief': f'argv: input {inname}, {nargs} extra args, cc args '
                         f'{cc_args}, unchecked={unchecked}: {b}',
                'part': 'c', 'unit': list(unit)})
        if len(part['samples']) < 1 and lines:
            part['samples'].append({'argv_seen': lines[0].replace(d, '<tmp>')})
        if t:
            t.cleanup()
    return part


def part_d(unit):
    """No time limit configured: the limits ddSMT derives from the golden
    runs must let a candidate through that reproduces both golden runs (one
    of the two commands takes 2.5 s, the other is instant)."""
    from ddsmt import checker
    _, slow = unit
    part = common.part_result()
    with common.scratch_dir('ddv-c09-') as d:
        main_s = os.path.join(d, 'cmd.sh')
        cc_s = os.path.join(d, 'cc.sh')
        write_script(main_s, 'main')
        write_script(cc_s, 'cc')
        infile = os.path.join(d, 'in.smt2')
        delay = 'S=2.5\n' if slow == 'main' else 'S2=2.5\n'

        def spec(path, main, cc):
            write_spec(path, main, cc)
            with open(path, 'a') as f:
                f.write(delay)

        spec(infile, GOLDEN, GOLDEN)
        os.environ.pop('DDV_LOG', None)
        argv = ['ddsmt', '-c', cc_s, infile, os.path.join(d, 'out.smt2'),
                main_s]
        common.set_args(argv)
        with common.quiet():
            checker.do_golden_runs()
        cand = os.path.join(d, 'cand.smt2')
        for mo, co, exp in ((GOLDEN, GOLDEN, True),
                            (GOLDEN, (0, 'xAy', 'xAy'), False),
                            ((0, 'xAy', 'xAy'), GOLDEN, False)):
            spec(cand, mo, co)
            common.pcount(part, 'evaluations')
            common.pcount(part, 'distinct_nontrivial')
            common.pcount(part, 'check_calls_with_derived_time_limits')
            got = checker.check(cand)
            for _ in range(2):
                # machine load can push an honest run over the derived
                # limit; only a verdict that repeats counts
                if bool(got) == exp or not exp:
                    break
                common.pcount(part, 'retries_under_load')
                got = checker.check(cand)
            if bool(got) != exp:
                from ddsmt import options
                common.pviolation(
                    part, f'derived-limits|slow-{slow}|{exp}', {
                        'brief': f'no time limit configured, {slow} command '
                                 f'takes 2.5 s: candidate main={mo} cc={co} '
                                 f'(golden {GOLDEN} for both) gets verdict '
                                 f'{got}, rule says {exp}; derived limits: '
                                 f'timeout={options.args().timeout} '
                                 f'timeout_cc={options.args().timeout_cc}',
                        'part': 'd', 'unit': list(unit)})
    return part


def run_unit(unit):
    return {'a': part_a, 'b': part_b, 'c': part_c,
            'd': part_d}[unit[0]](unit)


def plan(tier):
    units = []
    for ign_out, ign_err in itertools.product([False, True], repeat=2):
        for m_out, m_err in itertools.product([None, 'A'], repeat=2):
            units.append(('a', ign_out, ign_err, m_out, m_err))
    B = [False, True]
    for main in itertools.product(B, repeat=5):
        units.append(('b', ) + main + (False, False, False, False, False))
        units.append(('b', ) + main + (False, False, False, False, True))
        for ccopt in itertools.product(B, repeat=3):
            if tier != 'thorough' and sum(main) > 2 and sum(ccopt) > 1:
                # quick: all main combos with <= 2 options x all cc combos,
                # and all main combos x cc combos with <= 1 option
                continue
            units.append(('b', ) + main + (True, ) + ccopt + (False, ))
        units.append(('b', ) + main + (True, False, True, False, True))
    for inname in ['x.smt2', 'x.smt', 'x', 'x.a.b']:
        for nargs in (0, 1, 2):
            for cc_args in (None, 0, 2):
                units.append(('c', inname, nargs, cc_args, False))
        units.append(('c', inname, 1, 0, True))
    units = [('d', 'main'), ('d', 'cc')] + units
    return units


def main(tier):
    rep = common.Reporter(PROP, 'exploration', tier)
    units = plan(rep.tier)
    parts = common.pmap(run_unit, units, init=_init)
    for p in parts:
        rep.merge(p)
    rep.set(
        'rule',
        '(a) matches_golden on all 16 flag/match combinations x 32 golden x '
        '32 run outcomes; (b) real do_golden_runs + check() with real sh '
        'subprocesses: option combinations of --ignore-output/--ignore-out/'
        '--ignore-err/--match-out/--match-err x cross-check {absent, '
        'present x --ignore-output-cc/--match-out-cc/--match-err-cc} x '
        '--unchecked, x 18 candidate outcome classes per command (exit '
        'same/differs, each stream equal / contains A / lacks A); (c) argv '
        'for 4 input extensions x 0..2 extra arguments x cross-check with '
        'arguments; (d) without configured time limits and one of the two '
        'commands taking 2.5 s, a candidate reproducing both golden runs is '
        'accepted, others are not. distinct_nontrivial = cases whose expected verdict '
        'differs from plain equality with the golden outcome (a, b) / '
        'every argv case (c)')
    rep.set('exhaustive', True)
    rep.set('units', len(units))
    rep.assume('acceptance rule as stated in the property (checks/c09.py)',
               'explicit --timeout 120 so that machine load cannot turn a '
               'run into a timeout')
    return rep.finish()


def replay(rec):
    _init()
    r = rec['record']
    unit = tuple(tuple(x) if isinstance(x, list) else x for x in r['unit'])
    part = run_unit(unit)
    for sig, recd, kf in part['violations'][:10]:
        print('FAIL', recd['brief'])
    return 1 if part['violations'] else 0
