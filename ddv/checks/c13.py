"""C13 - the working input is a tree: node identities are pairwise distinct.

Function part (ENUM): every forest with <= N nodes and *every sharing
pattern* (DAG) through the real nodes.reduplicate.
History part (SCHED, see ddv/sched.py): ids at every generator construction
along all explored runs - contributed by run_history() when the SCHED engine
is available.  DESIGN 3/C13.
"""
import itertools

from .. import common, sexp

PROP = 'C13'
LEAVES = ['a', 'b']


def _init():
    common.import_ddsmt()


def key_of(t):
    return 'L:' + t if isinstance(t, str) else sexp.serialize(t)


def plans(forest):
    """All sharing patterns of a forest: dict position -> 'new' | ('reuse',
    q) | 'inherited' (inside a reused subtree)."""
    pos = list(sexp.forest_positions(forest))
    texts = {p: key_of(sexp.at(forest, p)) for p in pos}

    def rec(i, plan, created, reused_roots):
        if i == len(pos):
            yield dict(plan)
            return
        p = pos[i]
        if any(p[:len(r)] == r for r in reused_roots):
            plan[p] = 'inherited'
            yield from rec(i + 1, plan, created, reused_roots)
            del plan[p]
            return
        t = texts[p]
        plan[p] = 'new'
        created.setdefault(t, []).append(p)
        yield from rec(i + 1, plan, created, reused_roots)
        created[t].pop()
        for q in list(created.get(t, [])):
            plan[p] = ('reuse', q)
            reused_roots.append(p)
            yield from rec(i + 1, plan, created, reused_roots)
            reused_roots.pop()
        del plan[p]

    yield from rec(0, {}, {}, [])


def build(forest, plan, Node):
    objs = {}

    def go(p):
        pl = plan[p]
        if isinstance(pl, tuple):
            return objs[pl[1]]
        t = sexp.at(forest, p)
        if isinstance(t, str):
            n = Node(t)
        else:
            n = Node(*[go(p + (i, )) for i in range(len(t))])
        objs[p] = n
        return n

    return [go((i, )) for i in range(len(forest))]


def all_positions(roots):
    """[(path, node)] pre-order over a list of Node roots."""
    out = []
    stack = [((i, ), r) for i, r in reversed(list(enumerate(roots)))]
    while stack:
        p, n = stack.pop()
        out.append((p, n))
        if not isinstance(n.data, str):
            for i in reversed(range(len(n.data))):
                stack.append((p + (i, ), n.data[i]))
    return out


def judge(forest, roots, result):
    """Return list of (kind, detail) failures of reduplicate on one DAG."""
    fails = []
    if sexp.node_to_list(result) != forest:
        fails.append(('tokens-changed', sexp.serialize_all(
            sexp.node_to_list(result))))
        return fails
    res_pos = all_positions(result)
    ids = [n.id for _, n in res_pos]
    if len(ids) != len(set(ids)):
        dup = sorted(set(i for i in ids if ids.count(i) > 1))
        where = [p for p, n in res_pos if n.id in dup][:4]
        fails.append(('ids-not-distinct', f'ids {dup[:3]} at {where}'))
    arg_pos = all_positions(roots)
    mult = {}
    for _, n in arg_pos:
        mult[n.id] = mult.get(n.id, 0) + 1
    res_at = dict(res_pos)

    def clean(n):
        st = [n]
        while st:
            x = st.pop()
            if mult[x.id] != 1:
                return False
            if not isinstance(x.data, str):
                st.extend(x.data)
        return True

    for p, n in arg_pos:
        if mult[n.id] == 1 and clean(n) and res_at[p] is not n:
            fails.append(('unique-node-lost-identity', f'at {p}'))
            break
    return fails


def run_unit(unit):
    from ddsmt import nodes
    from ddsmt.nodes import Node
    _, total, idx, nshards = unit
    part = common.part_result()
    k = 0
    for fs in sexp.forests_shapes(total):
        if len(fs) > 3:
            continue
        nl = sum(sexp.count_leaves(s) for s in fs)
        for combo in itertools.product(LEAVES, repeat=nl):
            k += 1
            if k % nshards != idx:
                continue
            it = iter(combo)
            forest = [sexp.fill(s, it) for s in fs]
            for plan in plans(forest):
                roots = build(forest, plan, Node)
                shared = any(isinstance(v, tuple) for v in plan.values())
                common.pcount(part, 'evaluations')
                if shared:
                    common.pcount(part, 'distinct_nontrivial')
                try:
                    res = nodes.reduplicate(roots)
                    fails = judge(forest, roots, res)
                except Exception as e:  # noqa
                    fails = [(f'exception:{type(e).__name__}', repr(e))]
                for kind, detail in fails:
                    sh = sorted((p, v[1]) for p, v in plan.items()
                                if isinstance(v, tuple))
                    # what is shared: leaf / empty list / compound
                    what = sorted(set(
                        'leaf' if isinstance(sexp.at(forest, p), str) else
                        ('empty-list' if sexp.at(forest, p) == [] else
                         'compound') for p, _ in sh))
                    common.pviolation(
                        part, f'reduplicate|{kind}|{what}|'
                        f'{sexp.serialize_all(forest)[:60]}|{sh}', {
                            'brief': f'reduplicate: {kind} ({detail}) for '
                                     f'{sexp.serialize_all(forest)!r} with '
                                     f'shared positions {sh}',
                            'forest': forest,
                            'plan': [[list(p), v if not isinstance(v, tuple)
                                      else ['reuse', list(v[1])]]
                                     for p, v in plan.items()],
                        })
                if shared and len(part['samples']) < 1:
                    part['samples'].append({
                        'forest': sexp.serialize_all(forest),
                        'same_object_at': [[list(p), list(v[1])]
                                           for p, v in plan.items()
                                           if isinstance(v, tuple)]
                    })
    return part


def main(tier):
    rep = common.Reporter(PROP, 'model_checking', tier)
    nmax = 7 if rep.tier == 'thorough' else 6
    units = []
    for total in range(1, nmax + 1):
        sh = 16 if total >= 5 else 1
        for i in range(sh):
            units.append(('fn', total, i, sh))
    parts = common.pmap(run_unit, units, init=_init)
    for p in parts:
        rep.merge(p)
    try:
        from . import c13_history
        c13_history.run_history(rep)
    except ImportError:
        pass
    rep.set(
        'rule',
        f'function part: all forests of <= 3 trees with <= {nmax} nodes '
        'over leaves {a,b} (empty lists included) x every sharing pattern '
        '(which equal subtrees are one object), through nodes.reduplicate; '
        'distinct_nontrivial = DAGs with at least one shared object')
    rep.set('exhaustive', True)
    rep.assume('DAG enumerator and oracle in ddv/checks/c13.py')
    return rep.finish()


def replay(rec):
    _init()
    from ddsmt import nodes
    from ddsmt.nodes import Node
    r = rec['record']
    plan = {}
    for p, v in r['plan']:
        plan[tuple(p)] = v if isinstance(v, str) else ('reuse', tuple(v[1]))
    roots = build(r['forest'], plan, Node)
    res = nodes.reduplicate(roots)
    fails = judge(r['forest'], roots, res)
    print(r['brief'])
    print('now:', fails or 'holds')
    return 1 if fails else 0
