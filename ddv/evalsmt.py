"""Independent evaluator for a fragment of SMT-LIB over nested-list term trees
(DESIGN 2.9): Core, Ints/Reals, FixedSizeBitVectors, let (parallel),
quantifiers over finite domains, defined functions, datatype constructors and
selectors.  Values: bool, int, Fraction, ('bv', value, width),
('dt', constructor, args...).
"""
from fractions import Fraction


class Undefined(Exception):
    """The standard leaves the value open (e.g. integer division by 0)."""


class EvalError(Exception):
    pass


def bv(v, w):
    return ('bv', v & ((1 << w) - 1), w)


def to_signed(v, w):
    return v - (1 << w) if v >> (w - 1) else v


def const(t):
    if isinstance(t, str):
        if t == 'true':
            return True
        if t == 'false':
            return False
        if t.isdigit():
            return int(t)
        if t.startswith('#b'):
            return bv(int(t[2:], 2), len(t) - 2)
        if t.startswith('#x'):
            return bv(int(t[2:], 16), 4 * (len(t) - 2))
        try:
            if '.' in t:
                return Fraction(t)
        except ValueError:
            pass
        return None
    if len(t) == 3 and t[0] == '_' and isinstance(t[1], str) and \
            t[1].startswith('bv') and t[1][2:].isdigit():
        return bv(int(t[1][2:]), int(t[2]))
    return None


def chain(rel, xs):
    return all(rel(a, b) for a, b in zip(xs, xs[1:]))


def ev(t, env, funs=None, dts=None, domains=None):
    """Evaluate term tree t.  env: symbol -> value; funs: name -> (formals,
    body tree); dts: constructor -> [selector names]; domains: sort text ->
    list of values (for quantifiers)."""
    funs = funs or {}
    dts = dts or {}
    if isinstance(t, str):
        if t in env:
            return env[t]
        if t in funs and not funs[t][0]:
            return ev(funs[t][1], env, funs, dts, domains)
        c = const(t)
        if c is not None:
            return c
        if t in dts:
            return ('dt', t)
        raise EvalError(f'unbound symbol {t}')
    c = const(t)
    if c is not None:
        return c
    h = t[0]
    if h == 'let':
        new = dict(env)
        for b in t[1]:
            if isinstance(b, str) or len(b) != 2 or not isinstance(b[0], str):
                raise EvalError(f'malformed binding {b}')
            new[b[0]] = ev(b[1], env, funs, dts, domains)
        return ev(t[2], new, funs, dts, domains)
    if h in ('forall', 'exists'):
        names = [v for v, s in t[1]]
        doms = []
        for v, s in t[1]:
            key = s if isinstance(s, str) else ' '.join(map(str, s))
            if not domains or key not in domains:
                raise EvalError(f'no finite domain for sort {s}')
            doms.append(domains[key])
        import itertools
        res = []
        for combo in itertools.product(*doms):
            new = dict(env)
            new.update(zip(names, combo))
            res.append(ev(t[2], new, funs, dts, domains))
        return all(res) if h == 'forall' else any(res)
    if h == '!':
        return ev(t[1], env, funs, dts, domains)
    if h == 'ite':
        c = ev(t[1], env, funs, dts, domains)
        return ev(t[2] if c else t[3], env, funs, dts, domains)
    a = [ev(x, env, funs, dts, domains) for x in t[1:]]
    if isinstance(h, str) and h in funs:
        formals, body = funs[h]
        if len(formals) != len(a):
            raise EvalError(f'arity of {h}')
        new = dict(env)
        new.update(zip(formals, a))
        return ev(body, new, funs, dts, domains)
    if isinstance(h, str) and h in dts:
        return ('dt', h) + tuple(a)
    if isinstance(h, str):
        for cons, sels in dts.items():
            if h in sels:
                v = a[0]
                if v[0] != 'dt' or v[1] != cons:
                    raise Undefined(f'selector {h} on {v[1]}')
                return v[2 + sels.index(h)]
    if not isinstance(h, str):
        return ev_indexed(h, a)
    return ev_op(h, a)


def ev_indexed(h, a):
    if h[0] != '_':
        raise EvalError(f'head {h}')
    name = h[1]
    ix = [int(x) for x in h[2:]]
    x = a[0]
    if x[0] != 'bv':
        raise EvalError(f'{name} on {x}')
    v, w = x[1], x[2]
    if name == 'extract':
        i, j = ix
        if not (w > i >= j >= 0):
            raise EvalError('extract indices')
        return bv(v >> j, i - j + 1)
    if name == 'zero_extend':
        return bv(v, w + ix[0])
    if name == 'sign_extend':
        return bv(to_signed(v, w), w + ix[0])
    if name == 'repeat':
        r = 0
        for _ in range(ix[0]):
            r = (r << w) | v
        return bv(r, w * ix[0])
    if name == 'rotate_left':
        k = ix[0] % w
        return bv((v << k) | (v >> (w - k)), w)
    if name == 'rotate_right':
        k = ix[0] % w
        return bv((v >> k) | (v << (w - k)), w)
    raise EvalError(f'indexed operator {name}')


def ev_op(h, a):
    if h == 'not':
        return not a[0]
    if h == 'and':
        return all(a)
    if h == 'or':
        return any(a)
    if h == 'xor':
        r = False
        for x in a:
            r = r != bool(x)
        return r
    if h == '=>':
        r = a[-1]
        for x in reversed(a[:-1]):
            r = (not x) or r
        return r
    if h == '=':
        return chain(lambda x, y: x == y, a)
    if h == 'distinct':
        return all(a[i] != a[j] for i in range(len(a))
                   for j in range(i + 1, len(a)))
    num = all(isinstance(x, (int, Fraction)) and not isinstance(x, bool)
              for x in a)
    if num:
        if h == '+':
            return sum(a)
        if h == '-':
            if len(a) == 1:
                return -a[0]
            r = a[0]
            for x in a[1:]:
                r -= x
            return r
        if h == '*':
            r = 1
            for x in a:
                r *= x
            return r
        if h == '/':
            r = Fraction(a[0])
            for x in a[1:]:
                if x == 0:
                    raise Undefined('division by zero')
                r /= x
            return r
        if h in ('div', 'mod'):
            r = a[0]
            for x in a[1:]:
                if x == 0:
                    raise Undefined('division by zero')
                q = r // x if x > 0 else -(r // -x)
                r = q if h == 'div' else r - x * q
            return r
        if h == 'abs':
            return abs(a[0])
        if h == '<':
            return chain(lambda x, y: x < y, a)
        if h == '<=':
            return chain(lambda x, y: x <= y, a)
        if h == '>':
            return chain(lambda x, y: x > y, a)
        if h == '>=':
            return chain(lambda x, y: x >= y, a)
        if h == 'to_real':
            return Fraction(a[0])
    if all(isinstance(x, tuple) and x[0] == 'bv' for x in a):
        w = a[0][2]
        vs = [x[1] for x in a]
        if h == 'concat':
            r, tw = 0, 0
            for x in a:
                r = (r << x[2]) | x[1]
                tw += x[2]
            return bv(r, tw)
        if any(x[2] != w for x in a):
            raise EvalError(f'{h}: widths differ')
        if h == 'bvnot':
            return bv(~vs[0], w)
        if h == 'bvneg':
            return bv(-vs[0], w)
        fold = {'bvand': lambda x, y: x & y, 'bvor': lambda x, y: x | y,
                'bvxor': lambda x, y: x ^ y, 'bvadd': lambda x, y: x + y,
                'bvmul': lambda x, y: x * y}
        if h in fold:
            r = vs[0]
            for x in vs[1:]:
                r = fold[h](r, x)
            return bv(r, w)
        if len(vs) == 2:
            x, y = vs
            sx, sy = to_signed(x, w), to_signed(y, w)
            if h == 'bvnand':
                return bv(~(x & y), w)
            if h == 'bvnor':
                return bv(~(x | y), w)
            if h == 'bvxnor':
                return bv(~(x ^ y), w)
            if h == 'bvsub':
                return bv(x - y, w)
            if h == 'bvudiv':
                return bv((1 << w) - 1 if y == 0 else x // y, w)
            if h == 'bvurem':
                return bv(x if y == 0 else x % y, w)
            if h == 'bvshl':
                return bv(x << y if y < w else 0, w)
            if h == 'bvlshr':
                return bv(x >> y if y < w else 0, w)
            if h == 'bvashr':
                return bv(sx >> min(y, w), w)
            if h == 'bvcomp':
                return bv(1 if x == y else 0, 1)
            if h == 'bvult':
                return x < y
            if h == 'bvule':
                return x <= y
            if h == 'bvugt':
                return x > y
            if h == 'bvuge':
                return x >= y
            if h == 'bvslt':
                return sx < sy
            if h == 'bvsle':
                return sx <= sy
            if h == 'bvsgt':
                return sx > sy
            if h == 'bvsge':
                return sx >= sy
    raise EvalError(f'operator {h} on {a}')


def selftest():
    assert ev(['bvadd', '#b0111', '#x9'], {}) == bv(0, 4)
    assert ev([['_', 'sign_extend', '2'], '#b101'], {}) == bv(0b11101, 5)
    assert ev([['_', 'extract', '2', '1'], '#b0110'], {}) == bv(3, 2)
    assert ev(['concat', '#b1', ['_', 'bv2', '2']], {}) == bv(6, 3)
    assert ev(['let', [['a', 'b'], ['b', 'a']], ['-', 'a', 'b']],
              {'a': 5, 'b': 3}) == -2
    assert ev(['=>', 'p', 'q', 'r'], {'p': True, 'q': True, 'r': False}) \
        is False
    assert ev(['div', '7', ['-', '2']], {}) == -3 and \
        ev(['mod', ['-', '7'], '2'], {}) == 1
    assert ev(['f', ['g1'], 'a'], {'a': 2, 'b': 9},
              {'f': (['a', 'b'], ['-', 'a', 'b']), 'g1': ([], ['+', 'b',
                                                               '1'])}) == 8
    assert ev(['hd', ['cons', '4', 'nil']], {}, None,
              {'nil': [], 'cons': ['hd', 'tl']}) == 4
    assert ev(['forall', [['x', 'Bool']], ['or', 'x', ['not', 'x']]], {},
              domains={'Bool': [False, True]}) is True
    assert ev(['bvcomp', '#b01', '#b01'], {}) == bv(1, 1)
    assert ev([['_', 'rotate_left', '1'], '#b100'], {}) == bv(1, 3)
    return True
