"""Common plumbing for the ddSMT model-checking harness.

* binding to the code in /repo (or $DDV_REPO): import, per-execution reset
* verdict lines, replay files, known findings, evidence files
* a deterministic parallel map (work is partitioned by index, never by timing)
"""
import contextlib
import hashlib
import io
import json
import multiprocessing
import os
import shutil
import sys
import tempfile
import time
import traceback

VERIF = os.path.dirname(os.path.dirname(os.path.abspath(__file__)))
REPO = os.environ.get('DDV_REPO', '/repo')
EVIDENCE_DIR = os.environ.get('DDV_EVIDENCE_DIR') or os.path.join(
    VERIF, 'evidence')
REPLAY_DIR = os.environ.get('DDV_REPLAY_DIR') or os.path.join(
    VERIF, 'replays')
KNOWN_FINDINGS = os.path.join(VERIF, 'known_findings.json')
NPROC = int(os.environ.get('DDV_NPROC', '0')) or min(16, os.cpu_count() or 1)


class HarnessError(Exception):
    """Something is wrong with the harness itself (exit status 2)."""


# --------------------------------------------------------------------------
# binding to ddsmt


class _NoLock:

    def __enter__(self):
        return self

    def __exit__(self, *a):
        return False


class PrivateCounter:
    """Process-private stand-in for ``Node._Node__ID_COUNTER``."""

    def __init__(self, value=0):
        self.value = value
        self._lock = _NoLock()

    def get_lock(self):
        return self._lock


_DDSMT_IMPORTED = False


def import_ddsmt(argv=None, private_ids=True):
    """Import ddsmt from REPO.  ``sys.argv`` is set before the first import
    because ``ddsmt.debug_utils`` parses the command line at import time."""
    global _DDSMT_IMPORTED
    if argv is None:
        argv = ['ddsmt', '/dev/null', '/dev/null', '/bin/true']
    if not _DDSMT_IMPORTED:
        if REPO not in sys.path:
            sys.path.insert(0, REPO)
        sys.dont_write_bytecode = True
        saved = sys.argv
        sys.argv = list(argv)
        try:
            import ddsmt.options  # noqa
            import ddsmt.cli  # noqa
            import ddsmt.__main__  # noqa
        finally:
            sys.argv = saved
        import ddsmt
        if not os.path.abspath(ddsmt.__file__ or ddsmt.__path__[0]).startswith(
                os.path.abspath(REPO)):
            raise HarnessError(f'ddsmt imported from {ddsmt.__path__}')
        _setup_logging_levels()
        _DDSMT_IMPORTED = True
    set_args(argv)
    if private_ids:
        use_private_ids()


def _setup_logging_levels():
    import logging
    if not hasattr(logging, 'trace'):
        logging.CHAT = 25
        logging.addLevelName(logging.CHAT, 'CHAT')
        logging.chat = lambda msg, *a, **k: logging.log(
            logging.CHAT, msg, *a, **k)
        logging.TRACE = 5
        logging.addLevelName(logging.TRACE, 'TRACE')
        logging.trace = lambda msg, *a, **k: logging.log(
            logging.TRACE, msg, *a, **k)
    logging.getLogger().setLevel(logging.CRITICAL)


def set_args(argv):
    """(Re-)parse the ddsmt command line ``argv`` (argv[0] is ignored)."""
    from ddsmt import options
    options.__dict__['__PARSED_ARGS'] = None
    with contextlib.redirect_stderr(io.StringIO()):
        options.args(list(argv[1:]))
    return options.args()


def _value_like(obj):
    return hasattr(obj, 'get_lock') and hasattr(obj, 'value')


def use_private_ids(start=0, factory=None):
    """Replace the cross-process id counter by a process-private one.  Only
    done when the code under test still has a lock-protected counter object
    under the expected name; otherwise it is left alone."""
    from ddsmt.nodes import Node
    cur = Node.__dict__.get('_Node__ID_COUNTER')
    if cur is None or not _value_like(cur):
        return False
    Node._Node__ID_COUNTER = (factory or PrivateCounter)(start)
    return True


def reset_ids(start=0):
    from ddsmt.nodes import Node
    cur = Node.__dict__.get('_Node__ID_COUNTER')
    if cur is not None and _value_like(cur):
        cur.value = start
        return True
    return False


# --------------------------------------------------------------------------
# scratch


def scratch_root():
    base = os.environ.get('DDV_SCRATCH')
    if not base:
        base = '/dev/shm' if os.access('/dev/shm', os.W_OK) else \
            tempfile.gettempdir()
    return base


@contextlib.contextmanager
def scratch_dir(prefix='ddv-'):
    d = tempfile.mkdtemp(prefix=prefix, dir=scratch_root())
    try:
        yield d
    finally:
        shutil.rmtree(d, ignore_errors=True)


# --------------------------------------------------------------------------
# deterministic parallel map

_PMAP_FUNC = None
_PMAP_INIT = None


def _pmap_worker(args):
    idx, item = args
    try:
        return idx, _PMAP_FUNC(item), None
    except BaseException as e:  # noqa
        return idx, None, ''.join(
            traceback.format_exception(type(e), e, e.__traceback__))


def _pmap_initializer():
    if _PMAP_INIT is not None:
        _PMAP_INIT()


def pmap(func, items, init=None, nproc=None, chunksize=1):
    """Apply ``func`` to every item in forked worker processes; results in
    input order.  A worker exception is a harness error."""
    global _PMAP_FUNC, _PMAP_INIT
    items = list(items)
    nproc = nproc or NPROC
    if nproc <= 1 or len(items) <= 1:
        if init:
            init()
        return [func(x) for x in items]
    _PMAP_FUNC, _PMAP_INIT = func, init
    ctx = multiprocessing.get_context('fork')
    res = [None] * len(items)
    with ctx.Pool(min(nproc, len(items)), initializer=_pmap_initializer) as p:
        for idx, r, err in p.imap_unordered(_pmap_worker,
                                            list(enumerate(items)),
                                            chunksize):
            if err:
                raise HarnessError('worker failed:\n' + err)
            res[idx] = r
    return res


# --------------------------------------------------------------------------
# verdicts


def digest(obj):
    if not isinstance(obj, (bytes, str)):
        obj = json.dumps(obj, sort_keys=True, default=str)
    if isinstance(obj, str):
        obj = obj.encode('utf-8', 'surrogatepass')
    return hashlib.sha256(obj).hexdigest()[:16]


def load_known_findings(prop):
    if not os.path.exists(KNOWN_FINDINGS):
        return []
    with open(KNOWN_FINDINGS) as f:
        data = json.load(f)
    return [
        e for e in data.get('findings', [])
        if e.get('property') == prop and e.get('status') == 'open'
    ]


class Reporter:
    """Collects what one check run covered and found, prints the verdict
    lines, writes the evidence file, and returns the exit status."""

    MAX_PRINT = 10

    def __init__(self, prop, level, tier=None, seed=None):
        self.prop = prop
        self.level = level
        self.tier = tier or os.environ.get('VERIF_TIER', 'quick')
        if self.tier not in ('quick', 'thorough'):
            self.tier = 'quick'
        self.seed = seed if seed is not None else int(
            os.environ.get('VERIF_SEED', '0') or 0)
        self.t0 = time.time()
        self.coverage = {'samples': []}
        self.assumptions = []
        self.violations = {}  # signature -> record
        self.group_counts = {}
        self.violation_count = 0
        self.known = {}  # finding id -> count
        self.known_findings = load_known_findings(prop)
        self.notes = []
        self.caps = []

    # -- coverage ------------------------------------------------------
    def count(self, key, n=1):
        self.coverage[key] = self.coverage.get(key, 0) + n

    def set(self, key, value):
        self.coverage[key] = value

    def sample(self, s, limit=8):
        if len(self.coverage['samples']) < limit:
            self.coverage['samples'].append(s)

    def assume(self, *texts):
        for t in texts:
            if t not in self.assumptions:
                self.assumptions.append(t)

    def cap(self, text):
        if text not in self.caps:
            self.caps.append(text)

    # -- violations ----------------------------------------------------
    def violation(self, sig, record, kf_sig=None):
        """Register a failing case.

        ``sig`` identifies the *distinct* violation (used for de-duplication
        and the replay file name).  ``kf_sig`` is the specific known-finding
        signature this case was shown to coincide with (or None)."""
        if kf_sig is not None:
            for e in self.known_findings:
                if kf_sig in e.get('signatures', []):
                    self.known[e['id']] = self.known.get(e['id'], 0) + 1
                    return False
        self.violation_count += 1
        if sig not in self.violations and record is not None:
            # keep at most 25 distinct signatures per group (= the first two
            # '|'-separated fields) so that one noisy class cannot hide others
            grp = '|'.join(sig.split('|')[:2])
            n = self.group_counts.get(grp, 0)
            if n < 25 and len(self.violations) < 500:
                self.group_counts[grp] = n + 1
                self.violations[sig] = record
        return True

    def merge(self, part):
        """Merge a partial result produced by ``part_result`` in a worker."""
        for k, v in part.get('counts', {}).items():
            self.count(k, v)
        for s in part.get('samples', []):
            self.sample(s)
        for sig, rec, kf in part.get('violations', []):
            self.violation(sig, rec, kf)
        for c in part.get('caps', []):
            self.cap(c)
        self.violation_count += part.get('overflow', 0)

    # -- finish --------------------------------------------------------
    def finish(self):
        wall = time.time() - self.t0
        cov = dict(self.coverage)
        if self.caps:
            cov['caps_hit'] = self.caps
            cov['exhaustive'] = False
        if self.known:
            cov['known_findings_hit'] = dict(self.known)
        ev = {
            'property_id': self.prop,
            'tier': self.tier,
            'seed': self.seed,
            'level': self.level,
            'coverage': cov,
            'assumptions': self.assumptions,
            'wall_s': round(wall, 3),
            'violations': self.violation_count,
        }
        os.makedirs(EVIDENCE_DIR, exist_ok=True)
        path = os.path.join(EVIDENCE_DIR, f'{self.prop}.json')
        tmp = path + f'.tmp{os.getpid()}'
        with open(tmp, 'w') as f:
            json.dump(ev, f, indent=1, default=str)
            f.write('\n')
        os.replace(tmp, path)

        for e in self.known_findings:
            if e['id'] in self.known:
                print(f'KNOWN-FINDING: property={self.prop} {e["id"]}: '
                      f'{e["what"]} ({self.known[e["id"]]} cases)')
        if self.violations:
            d = os.path.join(REPLAY_DIR, self.prop)
            os.makedirs(d, exist_ok=True)
            for n, (sig, rec) in enumerate(self.violations.items()):
                rp = os.path.join(d, f'{digest(sig)}.json')
                with open(rp, 'w') as f:
                    json.dump(
                        {
                            'property': self.prop,
                            'tier': self.tier,
                            'signature': sig,
                            'record': rec
                        },
                        f,
                        indent=1,
                        default=str)
                if n < self.MAX_PRINT:
                    print(f'VIOLATION property={self.prop} replay={rp}')
                    brief = rec.get('brief') if isinstance(rec, dict) else None
                    if brief:
                        print(f'  {brief}')
            print(f'{self.prop}: {self.violation_count} violating cases, '
                  f'{len(self.violations)} distinct signatures '
                  f'({wall:.1f}s)')
            return 1
        brief = {
            k: v
            for k, v in cov.items()
            if isinstance(v, (int, float, bool)) and not isinstance(v, dict)
        }
        print(f'{self.prop}: OK tier={self.tier} {brief} ({wall:.1f}s)')
        return 0


def part_result():
    return {'counts': {}, 'samples': [], 'violations': [], 'caps': []}


def pcount(part, key, n=1):
    part['counts'][key] = part['counts'].get(key, 0) + n


def pviolation(part, sig, rec, kf=None, limit=60):
    """Record a failing case in a worker's partial result.  Beyond ``limit``
    records only counts are kept (plus, for cases that coincide with a known
    finding, a record-less marker so that they are still attributed)."""
    if len(part['violations']) < limit:
        part['violations'].append((sig, rec, kf))
    elif kf is not None:
        part['violations'].append((sig, None, kf))
    else:
        part['overflow'] = part.get('overflow', 0) + 1


@contextlib.contextmanager
def quiet():
    """Silence stdout/stderr of the code under test (python level)."""
    with contextlib.redirect_stdout(io.StringIO()), \
            contextlib.redirect_stderr(io.StringIO()):
        yield
