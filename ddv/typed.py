"""Typed SMT-LIB term generator with its own sort checker (DESIGN 2.9).

Sorts are python values: 'Bool' 'Int' 'Real' 'String' 'RM' 'RegLan'
('BV', w) ('FP', eb, sb) ('Array', s, t) ('DT', name) ('U', name).
Terms are nested lists of token texts (ddv.sexp trees).  The operator table
below is written from the SMT-LIB 2.6 theory documents, not from ddSMT.
"""
import itertools

BOOL, INT, REAL, STRING, RM, REGLAN = 'Bool', 'Int', 'Real', 'String', 'RM', \
    'RegLan'
LST = ('DT', 'Lst')
SHAPE = ('DT', 'Shape')
TAG = ('DT', 'Tag')
U = ('U', 'U')
WIDTHS = (1, 2, 4, 8)
FPS = (('FP', 5, 11), ('FP', 8, 24))
ARRAYS = (('Array', INT, INT), ('Array', ('BV', 2), ('BV', 4)))


def sort_text(s, fp_short=False):
    """Sort as an s-expression tree (nested lists)."""
    if isinstance(s, str):
        return {'RM': 'RoundingMode'}.get(s, s)
    if s[0] == 'BV':
        return ['_', 'BitVec', str(s[1])]
    if s[0] == 'FP':
        if fp_short:
            return {(5, 11): 'Float16', (8, 24): 'Float32'}[s[1:]]
        return ['_', 'FloatingPoint', str(s[1]), str(s[2])]
    if s[0] == 'Array':
        return ['Array', sort_text(s[1]), sort_text(s[2])]
    return s[1]


def sort_from_tree(t):
    """Inverse of sort_text on nested lists; None if not recognised."""
    if isinstance(t, str):
        m = {'Bool': BOOL, 'Int': INT, 'Real': REAL, 'String': STRING,
             'RoundingMode': RM, 'RegLan': REGLAN, 'Lst': LST, 'U': U,
             'Shape': SHAPE, 'Tag': TAG,
             'Float16': ('FP', 5, 11), 'Float32': ('FP', 8, 24),
             'Float64': ('FP', 11, 53), 'Float128': ('FP', 15, 113)}
        return m.get(t)
    try:
        if len(t) == 3 and t[0] == '_' and t[1] == 'BitVec':
            return ('BV', int(t[2]))
        if len(t) == 4 and t[0] == '_' and t[1] == 'FloatingPoint':
            return ('FP', int(t[2]), int(t[3]))
        if len(t) == 3 and t[0] == 'Array':
            a, b = sort_from_tree(t[1]), sort_from_tree(t[2])
            if a is not None and b is not None:
                return ('Array', a, b)
    except (ValueError, TypeError):
        return None
    return None


# --------------------------------------------------------------------------
# typed terms: (tree, annot) with annot = (sort, [child annots]) where a child
# annot is None for a non-term child (operator name, index, sort expression,
# binder list)


class T:
    __slots__ = ('tree', 'sort', 'kids', 'depth')

    def __init__(self, tree, sort, kids=None, depth=0):
        self.tree = tree
        self.sort = sort
        self.kids = kids  # list parallel to tree (None entries = not a term)
        self.depth = depth


def app(head, args, sort):
    return T([head] + [a.tree for a in args], sort, [None] + list(args),
             1 + max([a.depth for a in args] + [0]))


def atom(text, sort):
    return T(text, sort)


def idx(name, *ix):
    return ['_', name] + [str(i) for i in ix]


VARS = {}


def variables():
    """Two declared constants per sort (each symbol bound once)."""
    out = {}
    names = {BOOL: 'p', INT: 'n', REAL: 'r', STRING: 's', RM: 'rm', LST: 'l',
             U: 'u', SHAPE: 'sh', TAG: 'tg'}
    for s, base in names.items():
        out[s] = [atom(base + '1', s), atom(base + '2', s)]
    for w in WIDTHS:
        out[('BV', w)] = [atom(f'b{w}a', ('BV', w)), atom(f'b{w}b',
                                                          ('BV', w))]
    for f in FPS:
        out[f] = [atom(f'f{f[1]}a', f), atom(f'f{f[1]}b', f)]
    for i, a in enumerate(ARRAYS):
        out[a] = [atom(f'arr{i}a', a), atom(f'arr{i}b', a)]
    return out


def declarations(fp_short=False):
    decls = []
    decls.append(['declare-sort', 'U', '0'])
    decls.append(['declare-datatype', 'Lst',
                  [['nil'], ['cons', ['hd', 'Int'], ['tl', 'Lst']]]])
    decls.append(['declare-datatypes', [['Shape', '0'], ['Tag', '0']],
                  [[['dot'], ['circle', ['rad', 'Int']],
                    ['square', ['side', 'Int'], ['tag', 'Tag']], ['blob']],
                   [['ta'], ['tb', ['inner', 'Shape'], ['cnt', 'Int']],
                    ['tc']]]])
    for s, vs in variables().items():
        for i, v in enumerate(vs):
            if i == 0:
                decls.append(['declare-const', v.tree,
                              sort_text(s, fp_short)])
            else:
                decls.append(['declare-fun', v.tree, [],
                              sort_text(s, fp_short)])
    decls.append(['declare-fun', 'uf', ['U', 'Int'], 'U'])
    decls.append(['declare-fun', 'pf', ['Int'], 'Bool'])
    return decls


def constants():
    out = {
        BOOL: [atom('true', BOOL), atom('false', BOOL)],
        INT: [atom('0', INT), atom('1', INT), atom('7', INT)],
        REAL: [atom('0.0', REAL), atom('2.5', REAL),
               T(['/', '1.0', '3.0'], REAL, [None, atom('1.0', REAL),
                                             atom('3.0', REAL)], 1)],
        STRING: [atom('""', STRING), atom('"ab"', STRING)],
        RM: [atom('RNE', RM), atom('roundTowardZero', RM)],
        LST: [atom('nil', LST)],
        SHAPE: [atom('dot', SHAPE), atom('blob', SHAPE)],
        TAG: [atom('ta', TAG), atom('tc', TAG)],
    }
    for w in WIDTHS:
        cs = [atom('#b' + format(5 % (1 << w), f'0{w}b'), ('BV', w)),
              T(idx(f'bv{3 % (1 << w)}', w), ('BV', w))]
        if w % 4 == 0:
            cs.append(atom('#x' + format(10 % (1 << w), f'0{w // 4}x'),
                           ('BV', w)))
        out[('BV', w)] = cs
    for f in FPS:
        eb, sb = f[1], f[2]
        out[f] = [
            T(idx('+zero', eb, sb), f),
            T(['fp', '#b0', idx('bv1', eb), idx('bv0', sb - 1)], f,
              [None, atom('#b0', ('BV', 1)), T(idx('bv1', eb), ('BV', eb)),
               T(idx('bv0', sb - 1), ('BV', sb - 1))], 1)
        ]
    return out


def atoms():
    v, c = variables(), constants()
    out = {}
    for s in set(v) | set(c):
        out[s] = v.get(s, []) + c.get(s, [])
    return out


def operators():
    """List of (head tree, [arg sorts], result sort)."""
    ops = []

    def add(head, args, res):
        ops.append((head, list(args), res))

    for n in ('and', 'or', 'xor', '=>'):
        add(n, [BOOL, BOOL], BOOL)
        add(n, [BOOL, BOOL, BOOL], BOOL)
    add('not', [BOOL], BOOL)
    all_sorts = [BOOL, INT, REAL, STRING, RM, LST, U, SHAPE, TAG] + \
        [('BV', w) for w in WIDTHS] + list(FPS) + list(ARRAYS)
    for s in all_sorts:
        add('=', [s, s], BOOL)
        add('distinct', [s, s], BOOL)
        add('ite', [BOOL, s, s], s)
    add('=', [INT, INT, INT], BOOL)
    # Ints / Reals
    for s in (INT, REAL):
        for n in ('+', '-', '*'):
            add(n, [s, s], s)
        add('+', [s, s, s], s)
        add('-', [s], s)
        for n in ('<', '<=', '>', '>='):
            add(n, [s, s], BOOL)
    for n in ('div', 'mod'):
        add(n, [INT, INT], INT)
    add('abs', [INT], INT)
    add('/', [REAL, REAL], REAL)
    add('to_real', [INT], REAL)
    add('to_int', [REAL], INT)
    add('is_int', [REAL], BOOL)
    add(idx('divisible', 3), [INT], BOOL)
    # bit-vectors
    for w in WIDTHS:
        b = ('BV', w)
        for n in ('bvnot', 'bvneg'):
            add(n, [b], b)
        for n in ('bvand', 'bvor', 'bvadd', 'bvmul', 'bvudiv', 'bvurem',
                  'bvshl', 'bvlshr', 'bvxor', 'bvnand', 'bvnor', 'bvxnor',
                  'bvsub', 'bvsdiv', 'bvsrem', 'bvsmod', 'bvashr'):
            add(n, [b, b], b)
        add('bvadd', [b, b, b], b)
        add('bvcomp', [b, b], ('BV', 1))
        for n in ('bvult', 'bvule', 'bvugt', 'bvuge', 'bvslt', 'bvsle',
                  'bvsgt', 'bvsge'):
            add(n, [b, b], BOOL)
        for k in (0, 1, 3):
            add(idx('zero_extend', k), [b], ('BV', w + k))
            add(idx('sign_extend', k), [b], ('BV', w + k))
            add(idx('rotate_left', k), [b], b)
            add(idx('rotate_right', k), [b], b)
        for k in (1, 2, 3):
            add(idx('repeat', k), [b], ('BV', w * k))
        for i in range(w):
            for j in range(i + 1):
                if (i, j) in ((w - 1, 0), (0, 0), (w - 1, w - 1),
                              (w // 2, 0), (w - 1, w // 2)):
                    add(idx('extract', i, j), [b], ('BV', i - j + 1))
        for w2 in WIDTHS:
            add('concat', [b, ('BV', w2)], ('BV', w + w2))
        add('concat', [b, b, b], ('BV', 3 * w))
    # floating point
    for f in FPS:
        eb, sb = f[1], f[2]
        for n in ('fp.abs', 'fp.neg'):
            add(n, [f], f)
        for n in ('fp.add', 'fp.sub', 'fp.mul', 'fp.div'):
            add(n, [RM, f, f], f)
        add('fp.fma', [RM, f, f, f], f)
        for n in ('fp.sqrt', 'fp.roundToIntegral'):
            add(n, [RM, f], f)
        for n in ('fp.rem', 'fp.min', 'fp.max'):
            add(n, [f, f], f)
        for n in ('fp.leq', 'fp.lt', 'fp.geq', 'fp.gt', 'fp.eq'):
            add(n, [f, f], BOOL)
        for n in ('fp.isNormal', 'fp.isSubnormal', 'fp.isZero',
                  'fp.isInfinite', 'fp.isNaN', 'fp.isNegative',
                  'fp.isPositive'):
            add(n, [f], BOOL)
        add('fp.to_real', [f], REAL)
        add(idx('to_fp', eb, sb), [RM, REAL], f)
        other = FPS[1] if f == FPS[0] else FPS[0]
        add(idx('to_fp', eb, sb), [RM, other], f)
        add(idx('to_fp_unsigned', eb, sb), [RM, ('BV', 8)], f)
        for m in (4, 8):
            add(idx('fp.to_ubv', m), [RM, f], ('BV', m))
            add(idx('fp.to_sbv', m), [RM, f], ('BV', m))
    # strings
    add('str.++', [STRING, STRING], STRING)
    add('str.++', [STRING, STRING, STRING], STRING)
    add('str.len', [STRING], INT)
    for n in ('str.<', 'str.<=', 'str.prefixof', 'str.suffixof',
              'str.contains'):
        add(n, [STRING, STRING], BOOL)
    add('str.at', [STRING, INT], STRING)
    add('str.substr', [STRING, INT, INT], STRING)
    add('str.indexof', [STRING, STRING, INT], INT)
    add('str.replace', [STRING, STRING, STRING], STRING)
    add('str.replace_all', [STRING, STRING, STRING], STRING)
    add('str.is_digit', [STRING], BOOL)
    add('str.to_code', [STRING], INT)
    add('str.from_code', [INT], STRING)
    add('str.to_int', [STRING], INT)
    add('str.from_int', [INT], STRING)
    add('str.to_re', [STRING], REGLAN)
    add('str.in_re', [STRING, REGLAN], BOOL)
    add('re.*', [REGLAN], REGLAN)
    # arrays
    for a in ARRAYS:
        add('select', [a, a[1]], a[2])
        add('store', [a, a[1], a[2]], a)
    # datatype
    add('cons', [INT, LST], LST)
    add('hd', [LST], INT)
    add('tl', [LST], LST)
    add(idx('is', 'cons'), [LST], BOOL)
    add('circle', [INT], SHAPE)
    add('square', [INT, TAG], SHAPE)
    add('rad', [SHAPE], INT)
    add('side', [SHAPE], INT)
    add('tag', [SHAPE], TAG)
    add('tb', [SHAPE, INT], TAG)
    add('inner', [TAG], SHAPE)
    add('cnt', [TAG], INT)
    # uninterpreted
    add('uf', [U, INT], U)
    add('pf', [INT], BOOL)
    return ops


def generate(depth, atoms_per_sort=3):
    """dict sort -> list of T up to ``depth`` (all operators; arguments: all
    combinations of up to ``atoms_per_sort`` atoms at depth 1; at depth d>1
    one argument ranges over all terms of depth d-1, the others over the
    first atom)."""
    base = atoms()
    levels = [{s: list(ts) for s, ts in base.items()}]
    ops = operators()
    for d in range(1, depth + 1):
        new = {}
        prev = levels[-1]
        for head, args, res in ops:
            if d == 1:
                pools = [base.get(a, [])[:atoms_per_sort] for a in args]
                if any(not p for p in pools):
                    continue
                for combo in itertools.product(*pools):
                    new.setdefault(res, []).append(app(head, combo, res))
            else:
                for i, a in enumerate(args):
                    for t in prev.get(a, []):
                        if t.depth != d - 1:
                            continue
                        combo = []
                        ok = True
                        for j, b in enumerate(args):
                            if j == i:
                                combo.append(t)
                            else:
                                if not base.get(b):
                                    ok = False
                                    break
                                combo.append(base[b][0])
                        if ok:
                            new.setdefault(res, []).append(
                                app(head, combo, res))
        levels.append(new)
    out = {}
    for lv in levels:
        for s, ts in lv.items():
            out.setdefault(s, []).extend(ts)
    return out, levels


# --------------------------------------------------------------------------
# independent sort checker over nested-list trees


class SortError(Exception):
    pass


def env_default():
    env = {}
    for s, vs in variables().items():
        for v in vs:
            env[v.tree] = s
    return env


def bv_const_width(t):
    if isinstance(t, str):
        if t.startswith('#b') and len(t) > 2 and set(t[2:]) <= set('01'):
            return len(t) - 2
        if t.startswith('#x') and len(t) > 2:
            int(t[2:], 16)
            return 4 * (len(t) - 2)
        return None
    if len(t) == 3 and t[0] == '_' and isinstance(t[1], str) and \
            t[1].startswith('bv') and t[1][2:].isdigit():
        return int(t[2])
    return None


def check(t, env, funs=None):
    """Sort of term tree ``t`` under ``env`` (symbol -> sort) or SortError."""
    funs = funs or {}
    if isinstance(t, str):
        if t in env:
            return env[t]
        if t in funs and not funs[t][0]:
            return funs[t][1]
        if t in ('true', 'false'):
            return BOOL
        if t.isdigit():
            return INT
        if t.replace('.', '', 1).isdigit() and '.' in t:
            return REAL
        if t.startswith('"'):
            return STRING
        w = bv_const_width(t) if t.startswith('#') else None
        if w:
            return ('BV', w)
        if t in ('RNE', 'RNA', 'RTP', 'RTN', 'RTZ', 'roundNearestTiesToEven',
                 'roundNearestTiesToAway', 'roundTowardPositive',
                 'roundTowardNegative', 'roundTowardZero'):
            return RM
        if t == 'nil':
            return LST
        if t in ('dot', 'blob'):
            return SHAPE
        if t in ('ta', 'tc'):
            return TAG
        raise SortError(f'unknown symbol {t}')
    if not t:
        raise SortError('empty application')
    w = bv_const_width(t)
    if w:
        return ('BV', w)
    head = t[0]
    if head == '_' and len(t) == 4 and t[1] in ('+zero', '-zero', 'NaN',
                                                '+oo', '-oo'):
        return ('FP', int(t[2]), int(t[3]))
    if head == 'let':
        env2 = dict(env)
        if isinstance(t[1], str) or len(t) != 3:
            raise SortError('malformed let')
        for b in t[1]:
            if isinstance(b, str) or len(b) != 2 or not isinstance(b[0], str):
                raise SortError(f'malformed binding {b}')
            env2[b[0]] = check(b[1], env, funs)
        return check(t[2], env2, funs)
    if head in ('forall', 'exists'):
        env2 = dict(env)
        if isinstance(t[1], str) or len(t) != 3:
            raise SortError('malformed quantifier')
        for b in t[1]:
            if isinstance(b, str) or len(b) != 2 or not isinstance(b[0], str):
                raise SortError(f'malformed binding {b}')
            env2[b[0]] = sort_from_tree(b[1])
        if check(t[2], env2, funs) != BOOL:
            raise SortError('quantifier body not Bool')
        return BOOL
    if head == '!':
        return check(t[1], env, funs)
    args = [check(a, env, funs) for a in t[1:]]
    if head == 'fp' and len(args) == 3 and all(
            isinstance(a, tuple) and a[0] == 'BV' for a in args) and \
            args[0][1] == 1:
        return ('FP', args[1][1], args[2][1] + 1)
    if isinstance(head, str) and head in funs:
        ps, res = funs[head]
        if list(ps) != args:
            raise SortError(f'{head} applied to {args}')
        return res
    if not isinstance(head, str) and len(head) >= 3 and head[0] == '_' and \
            len(args) == 1 and isinstance(args[0], tuple) and \
            args[0][0] == 'BV' and all(x.isdigit() for x in head[2:]):
        w = args[0][1]
        ix = [int(x) for x in head[2:]]
        if head[1] == 'extract' and len(ix) == 2 and w > ix[0] >= ix[1]:
            return ('BV', ix[0] - ix[1] + 1)
        if head[1] in ('zero_extend', 'sign_extend') and len(ix) == 1:
            return ('BV', w + ix[0])
        if head[1] == 'repeat' and len(ix) == 1 and ix[0] >= 1:
            return ('BV', w * ix[0])
        if head[1] in ('rotate_left', 'rotate_right') and len(ix) == 1:
            return ('BV', w)
    for h, ps, res in operators_index().get(_hkey(head), []):
        if ps == args:
            return res
    # n-ary chains of left-assoc / chainable / pairwise operators
    if isinstance(head, str) and len(args) > 2 and len(set(args)) == 1:
        for h, ps, res in operators_index().get(head, []):
            if len(ps) == 2 and ps[0] == ps[1] == args[0]:
                return res
    raise SortError(f'no operator {head} for {args}')


def _hkey(head):
    return head if isinstance(head, str) else '(' + ' '.join(map(str,
                                                                  head)) + ')'


_OPIDX = None


def operators_index():
    global _OPIDX
    if _OPIDX is None:
        _OPIDX = {}
        for h, ps, res in operators():
            _OPIDX.setdefault(_hkey(h), []).append((h, ps, res))
    return _OPIDX


def selftest():
    env = env_default()
    out, levels = generate(1)
    n = 0
    for s, ts in out.items():
        for t in ts:
            got = check(t.tree, env, {'uf': ([U, INT], U),
                                      'pf': ([INT], BOOL)})
            assert got == s, (t.tree, got, s)
            n += 1
    assert n > 1000, n
    assert check(['let', [['v', ['+', 'n1', '1']]], ['>', 'v', '0']], env) \
        == BOOL
    try:
        check(['bvadd', 'b4a', 'b8a'], env)
        assert False
    except SortError:
        pass
    assert sort_from_tree(sort_text(('Array', ('BV', 2), ('BV', 4)))) == \
        ('Array', ('BV', 2), ('BV', 4))
    assert check(['concat', '#b01', ['_', 'bv3', '4']], env) == ('BV', 6)
    assert check([['_', 'extract', '3', '1'], 'b4a'], env) == ('BV', 3)
    return True
