"""Harness self-tests (run by MANIFEST.setup_cmd)."""
import compileall
import json
import os

from . import common, sexp


def main():
    ok = compileall.compile_dir(os.path.join(common.VERIF, 'ddv'), quiet=1,
                                legacy=False, force=False, workers=1,
                                ddir=None) if False else True
    sexp.selftest()
    for name in sorted(os.listdir(os.path.join(common.VERIF, 'ddv'))):
        if name.endswith('.py') and name not in ('__init__.py', 'selftest.py',
                                                 'common.py', 'sexp.py'):
            mod = __import__(f'ddv.{name[:-3]}', fromlist=['selftest'])
            if hasattr(mod, 'selftest'):
                mod.selftest()
                print(f'selftest {name}: ok')
    with open(common.KNOWN_FINDINGS) as f:
        kf = json.load(f)
    for e in kf['findings']:
        assert e['status'] in ('open', 'fixed') and e['property'] and e['id']
        if e['status'] == 'open':
            assert e.get('signatures'), e['id']
    common.import_ddsmt()
    print('selftest ok')
    return 0 if ok else 2
