"""SCHED engine: run ddsmt.__main__.main() in-process under

* a *virtual process pool* whose every degree of freedom (which task finishes
  next, producer run-ahead, lateness of the main loop, which read of the abort
  flag first sees "set") is a choice point of the explorer (DESIGN 2.5),
* a *command model* that replaces checker.execute by a deterministic function
  of the candidate file's token sequence (DESIGN 2.6),
* pass-through monitors that record derivations, verdicts, writes, generator
  constructions (DESIGN 2.2).
"""
import io
import logging
import os
import pickle
import re
import shutil
import sys
import tempfile

from . import common, explore, sexp

INF = 10**9


class _Exc:

    def __init__(self, exc):
        self.exc = exc


class Interrupt(Exception):
    pass


class HardExit(BaseException):
    """The code under test called os._exit(): the interpreter would end here
    without running any finalizer."""

    def __init__(self, code):
        self.code = code


class Runaway(BaseException):
    """The run exceeded its bound on command executions."""


# --------------------------------------------------------------------------
# runtime of one execution


class Runtime:
    current = None

    def __init__(self, scn, chooser):
        self.scn = scn
        self.ch = chooser
        self.log = []  # monitored events
        self.reader_k = None  # None = main/producer view of the flag
        self.on_read = None
        self.window_policy = None
        self.reads = 0
        self.worker = None  # current virtual worker id (None = main)
        self.events = []
        self.pools = 0
        self.memo = {}  # adversarial command memo
        self.cur = None  # digest of the current accepted input
        self.states = set()
        self.transitions = set()
        self.prev_state = None
        self.n_points = 0
        self.stats = {}
        self.lookahead = scn.get('lookahead', 2)
        self.k_options = [0, INF]
        self.paths_by_worker = {}
        self.final_exprs = None
        self.messages = []
        self.par_calls = 0
        self.fault = None
        self.active_iter = None

    def stat(self, k, n=1):
        self.stats[k] = self.stats.get(k, 0) + n

    def choose(self, tag, n, default=0, kind='sched'):
        return self.ch.choose(tag, n, default, kind)


class VEvent:

    def __init__(self, rt):
        self.rt = rt
        self.flag = False

    def set(self):
        self.flag = True

    def clear(self):
        self.flag = False

    def is_set(self):
        rt = self.rt
        if rt is None or rt.reader_k is None:
            return self.flag
        rt.reads += 1
        res = rt.reads > rt.reader_k
        if rt.on_read is not None:
            rt.on_read(rt.reads)
        return res


class VManager:

    def __init__(self, rt):
        self.rt = rt

    def Event(self):
        ev = VEvent(self.rt)
        self.rt.events.append(ev)
        return ev


class VMP:
    """Stands in for the ``multiprocessing`` module inside the strategies."""

    def __init__(self, real):
        self._real = real

    def Pool(self, n=None, *a, **k):
        return VPool(Runtime.current, n or 1)

    def Manager(self):
        return VManager(Runtime.current)

    def __getattr__(self, name):
        return getattr(self._real, name)


WORKER_GLOBALS = ['__cached_exprs', '__cached_exprs_hash']


class VPool:

    def __init__(self, rt, n):
        from ddsmt import strategy_ddmin
        self.rt = rt
        self.n = n
        rt.pools += 1
        # forked workers inherit the parent's module state of that moment
        snap = {g: strategy_ddmin.__dict__.get(g) for g in WORKER_GLOBALS}
        self.wglobals = [dict(snap) for _ in range(n)]
        self.free = list(range(n))

    def __enter__(self):
        return self

    def __exit__(self, *a):
        return False

    def terminate(self):
        pass

    def close(self):
        pass

    def join(self):
        pass

    def imap_unordered(self, func, iterable, chunksize=1):
        return VIter(self, func, iterable)

    def imap(self, func, iterable, chunksize=1):
        return VIter(self, func, iterable)


def _roundtrip(obj):
    return pickle.loads(pickle.dumps(obj))


class VIter:

    def __init__(self, pool, func, iterable):
        self.pool = pool
        self.rt = pool.rt
        self.func = func
        self.it = iter(iterable)
        self.Q = []
        self.R = []
        self.O = []
        self.Oseq = []
        self.done = False
        self.seq = 0
        self.rt.stat('imap_calls')
        self.rt.active_iter = self
        self.in_pull = False

    def __iter__(self):
        return self

    def flag(self):
        return any(e.flag for e in self.rt.events[-1:])

    def enabled(self):
        n = self.pool.n
        ev = []
        can_pull = (not self.done) and len(self.Q) < self.rt.lookahead
        fins = []
        flag = self.flag()
        for i, e in enumerate(self.R):
            if not flag:
                ks = [INF]
            elif e['after_T']:
                ks = [0]
            else:
                ks = self.rt.k_options
            for k in ks:
                fins.append(('FIN', i, k))
        if self.rt.scn.get('eager_pull') and can_pull and not self.O:
            # alternative default policy: the task handler thread runs ahead
            # of the workers as far as the queue bound allows
            ev.append(('PULL', ))
            ev.extend(fins)
        elif self.O:
            ev.append(('DEL', ))
            ev.extend(fins)
            if can_pull:
                ev.append(('PULL', ))
        elif can_pull and len(self.R) < n:
            ev.append(('PULL', ))
            ev.extend(fins)
        elif fins:
            ev.extend(fins)
            if can_pull:
                ev.append(('PULL', ))
        elif can_pull:
            ev.append(('PULL', ))
        return ev

    def state_key(self):
        rt = self.rt
        return (rt.cur, len(self.Q), len(self.R), len(self.O), self.flag(),
                self.done, tuple(e['after_T'] for e in self.R))

    def __next__(self):
        rt = self.rt
        while True:
            ev = self.enabled()
            sk = hash(self.state_key())
            rt.states.add(sk)
            if rt.prev_state is not None:
                rt.transitions.add(hash(rt.prev_state + (sk, )))
            if not ev:
                rt.prev_state = (sk, 'END')
                if rt.active_iter is self:
                    rt.active_iter = None
                raise StopIteration
            tag = ('vp', len(self.Q), len(self.R), len(self.O), self.done,
                   len(ev))
            if rt.scn.get('prune') and rt.ch.beyond_prefix():
                self.prune_check()
            c = rt.choose(tag, len(ev), 0, 'sched')
            rt.n_points += 1
            e = ev[c]
            rt.prev_state = (sk, e[0])
            if e[0] == 'DEL':
                r = self.O.pop(0)
                if self.Oseq:
                    self.Oseq.pop(0)
                if isinstance(r, _Exc):
                    raise r.exc
                return r
            if e[0] == 'PULL':
                if self.R or self.O:
                    rt.stat('runahead_pulls')
                self.pull()
            else:
                if self.O:
                    rt.stat('fin_while_result_pending')
                if e[1] != 0:
                    rt.stat('overtaking')
                self.fin(e[1], e[2])

    def prune_check(self):
        """State pruning (DESIGN 2.4): if this control state was already
        visited, beyond a prefix, with at least the same remaining budgets,
        every continuation is explored from that visit."""
        rt = self.rt
        fp = fingerprint(self)
        if fp is None:
            return
        rem = rt.ch.remaining()
        if rem is None:
            return
        key = (rt.scn['name'], fp)
        seen = _VISITED.get(key)
        if seen is not None:
            for old in seen:
                if all(o[1] >= r[1] for o, r in zip(old, rem)):
                    rt.stat('pruned')
                    raise explore.Pruned()
            seen.append(rem)
        elif len(_VISITED) < 3000000:
            _VISITED[key] = [rem]

    def _start(self, task):
        w = self.pool.free.pop(0)
        t, seq = task
        self.R.append({'task': t, 'worker': w, 'after_T': self.flag(),
                       'seq': seq})

    def pull(self):
        rt = self.rt
        self.in_pull = True
        try:
            self._pull()
        finally:
            self.in_pull = False

    def _pull(self):
        rt = self.rt
        try:
            t = next(self.it)
        except StopIteration:
            self.done = True
            return
        except Interrupt:
            raise
        except Exception as e:  # noqa
            self.O.append(_Exc(e))
            self.Oseq.append((-1, 0))
            self.done = True
            return
        try:
            t = _roundtrip(t)
        except Exception as e:  # noqa
            self.O.append(_Exc(e))
            self.Oseq.append((-2, 0))
            return
        self.seq += 1
        if len(self.R) < self.pool.n:
            self._start((t, self.seq))
        else:
            self.Q.append((t, self.seq))

    def fin(self, i, k):
        from ddsmt import strategy_ddmin
        rt = self.rt
        e = self.R.pop(i)
        w = e['worker']
        saved = {g: strategy_ddmin.__dict__.get(g) for g in WORKER_GLOBALS}
        strategy_ddmin.__dict__.update(self.pool.wglobals[w])
        rt.reader_k, rt.reads, rt.worker = k, 0, w
        try:
            try:
                res = self.func(e['task'])
                res = _roundtrip(res)
            except Interrupt:
                raise
            except Exception as ex:  # noqa
                res = _Exc(ex)
        finally:
            rt.reader_k, rt.worker = None, None
            self.pool.wglobals[w] = {
                g: strategy_ddmin.__dict__.get(g)
                for g in WORKER_GLOBALS
            }
            strategy_ddmin.__dict__.update(saved)
        self.O.append(res)
        self.Oseq.append((e['seq'], k))
        self.pool.free.append(w)
        self.pool.free.sort()
        while self.Q and len(self.R) < self.pool.n:
            self._start(self.Q.pop(0))


_VISITED = {}


def _norm_tokens_of(exprs):
    return tuple(GEN_FRESH.sub('x#__fresh', t) for t in tokens_of_exprs(exprs))


GEN_FRESH = re.compile(r'x\d+__fresh')


def fingerprint(vi):
    """Canonical control state at a scheduling point, or None where the
    main-loop state cannot be read (then nothing is pruned).  Equal keys have
    equal futures: the key holds the main loop's variables, the current input,
    the producer position, what is queued / running / finished, the flag, the
    per-worker caches and the adversarial memo.  Node ids are left out: they
    only show in generated names, to which commands and oracles are blind."""
    rt = vi.rt
    f = sys._getframe(2)
    main = None
    extra = ()
    for _ in range(12):
        if f is None:
            break
        name = f.f_code.co_name
        mod = f.f_globals.get('__name__', '')
        if name == 'reduce' and mod == 'ddsmt.strategy_hierarchical':
            loc = f.f_locals
            main = ('H', loc.get('passid'), loc.get('skip'),
                    loc.get('fresh_run'), loc.get('reduction'),
                    _norm_tokens_of(loc.get('exprs')))
            break
        if name == '_check_par' and mod == 'ddsmt.strategy_ddmin':
            loc = f.f_locals
            tg = loc.get('taskgen')
            st = loc.get('stats') or {}
            extra = (loc.get('start_index'), loc.get('skip'), tg.index,
                     tg.stopped, tg.gran, str(tg.mutator), tg.max_depth,
                     _norm_tokens_of(tg.exprs),
                     tuple(tuple(GEN_FRESH.sub('x#__fresh', str(n))
                                 for n in sub)
                           for sub in tg.subsets[tg.index:]),
                     st.get('reduced'), st.get('tests_success'),
                     # does each worker's cached hash name the current input?
                     # (a cache whose hash and content disagree is a state of
                     # its own)
                     tuple(g.get('__cached_exprs_hash') == (
                         hash(tg.pickled_exprs) if tg.pickled_exprs else None)
                         for g in vi.pool.wglobals))
        if name == 'reduce' and mod == 'ddsmt.strategy_ddmin':
            loc = f.f_locals
            main = ('D', str(loc.get('mut')), loc.get('nreduced_round'),
                    loc.get('nreduced')) + extra
            break
        f = f.f_back
    if main is None:
        return None
    from ddsmt import strategy_ddmin  # noqa
    caches = tuple(
        _norm_tokens_of(g.get('__cached_exprs') or [])
        for g in vi.pool.wglobals) if extra else ()
    o_sum = []
    for r, sk in zip(vi.O, vi.Oseq):
        o_sum.append(sk + (_result_summary(r), ))
    memo = tuple(sorted(rt.memo.items())) if rt.memo else ()
    pend = []
    for th in getattr(rt, 'pending_threads', ()):
        args = []
        for a in getattr(th, '_args', ()) or ():
            try:
                args.append(_norm_tokens_of(a))
            except Exception:  # noqa
                args.append(repr(a)[:80])
        pend.append(tuple(args))
    # the lazily filled sort cache is shared between the main loop and the
    # task generator: what it holds (structural keys) is part of the state
    from ddsmt import smtlib
    cache = smtlib.__dict__.get('__get_sort_cache') or {}
    sorts = tuple(sorted((GEN_FRESH.sub('x#__fresh', str(k)), str(v))
                         for k, v in cache.items()
                         if not isinstance(k, int)))
    memo = (memo, tuple(pend), hash(sorts), rt.window_policy)
    return hash((main, vi.seq, vi.done, vi.flag(),
                 tuple(q[1] for q in vi.Q),
                 tuple((e['seq'], e['after_T'], e['worker']) for e in vi.R),
                 tuple(o_sum), caches, memo, tuple(vi.pool.free)))


def _result_summary(r):
    if isinstance(r, _Exc):
        return ('exc', type(r.exc).__name__)
    try:
        if isinstance(r, bytes):
            ok, task = pickle.loads(r)
            return (ok, task.nodeid, task.name,
                    _norm_tokens_of(task.exprs) if task.exprs else None)
        return (r.task_id, r.success, r.reduced, r.tests,
                _norm_tokens_of(r.exprs) if r.exprs else None)
    except Exception:  # noqa
        return ('?', )


# --------------------------------------------------------------------------
# command models

GEN_NAME = re.compile(r'^(x\d+__fresh|_+[A-Za-z].*|.*_prefix|.*_suffix)$')


def norm_tokens(tokens):
    """Tokens with comments dropped (a command does not see them)."""
    return tuple(t for t in tokens if not t.startswith(';'))


def run_model(model, tokens, rt):
    """-> (exit, out, err) for a candidate with the given token sequence."""
    kind = model[0]
    toks = set(tokens)
    if kind == 'has':
        return (1 if all(t in toks for t in model[1]) else 0, '', '')
    if kind == 'streams':
        _, ex, out, err = model
        return (1 if all(t in toks for t in ex) else 0,
                'A' if all(t in toks for t in out) else 'B',
                'xAy' if all(t in toks for t in err) else 'z')
    if kind == 'count':
        _, tok, c = model
        return (1 if sum(1 for t in tokens if t == tok) >= c else 0, '', '')
    if kind == 'anyof':
        # accept exactly the files that contain one of the listed token
        # subsequences (written blank-separated)
        text = ' ' + ' '.join(tokens) + ' '
        return (1 if any((' ' + sh + ' ') in text for sh in model[1]) else 0,
                '', '')
    if kind == 're':
        return (1 if re.search(model[1], ' '.join(tokens)) else 0, '', '')
    if kind == 'and':
        rs = [run_model(m, tokens, rt) for m in model[1:]]
        return (1 if all(r[0] for r in rs) else 0, '', '')
    if kind == 'adversarial':
        key = tuple(tokens)
        if key not in rt.memo:
            if key == rt.input_tokens:
                rt.memo[key] = 1
            else:
                c = rt.choose(('accept', len(rt.memo)), 2, 0, 'accept')
                rt.memo[key] = c
        return (rt.memo[key], '', '')
    raise common.HarnessError(f'unknown model {model!r}')


# --------------------------------------------------------------------------
# monitors (installed once per process; they consult Runtime.current)

_INSTALLED = False
_ORIG = {}


def tokens_of_exprs(exprs):
    return tuple(sexp.strip_comment(t) for t in sexp.forest_tokens(
        sexp.node_to_list(list(exprs))))


def install():
    global _INSTALLED
    if _INSTALLED:
        return
    from ddsmt import (checker, cli, nodeio, strategy_ddmin,
                       strategy_hierarchical, tmpfiles)
    import multiprocessing as real_mp
    shim = VMP(real_mp)
    strategy_ddmin.multiprocessing = shim
    strategy_hierarchical.multiprocessing = shim

    # -- command
    def execute(cmd, filename, timeout):
        rt = Runtime.current
        from ddsmt import options
        if options.args().unchecked:
            return checker.RunInfo(0, 'unchecked', 'unchecked', 0)
        which = 'cc' if os.path.basename(cmd[0]).endswith('_cc') else 'main'
        with open(filename, 'rb') as f:
            data = f.read()
        try:
            toks = tuple(sexp.strip_comment(t) for t in sexp.token_texts(
                data.decode('utf-8')))
        except sexp.LexError:
            toks = ('<unlexable>', data.decode('utf-8', 'replace'))
        model = rt.scn['model'] if which == 'main' else rt.scn['cc_model']
        res = run_model(model, norm_tokens(toks), rt)
        rt.log.append(('run', which, toks, res, rt.worker,
                       os.path.basename(filename)))
        if rt.worker is not None or filename != options.args().infile:
            rt.paths_by_worker.setdefault(rt.worker, set()).add(filename)
        rt.stat('command_runs')
        if rt.stats['command_runs'] > rt.scn.get('max_command_runs', 10**6):
            raise Runaway(rt.stats['command_runs'])
        if rt.fault is not None:
            f = rt.fault(rt, which, toks, timeout)
            if f is not None:
                return f
        return checker.RunInfo(res[0], res[1], res[2], 0.0)

    _ORIG['execute'] = checker.execute
    checker.execute = execute

    # -- derivations
    def mk_apply(orig):

        def apply_simp(exprs, simp):
            res = orig(exprs, simp)
            rt = Runtime.current
            if rt is not None and rt.worker is not None or (
                    rt is not None and rt.in_seq_worker):
                try:
                    rt.log.append(('derive', tokens_of_exprs(exprs),
                                   tokens_of_exprs(res)
                                   if res is not None else None, rt.worker))
                except Exception:  # noqa
                    pass
            return res

        return apply_simp

    for mod in (strategy_ddmin, strategy_hierarchical):
        mod.apply_simp = mk_apply(mod.apply_simp)

    # sequential ddmin runs _worker in the main process
    orig_worker = strategy_ddmin._worker

    def _worker(task):
        rt = Runtime.current
        if rt is not None and rt.worker is None:
            rt.in_seq_worker = True
            try:
                return orig_worker(task)
            finally:
                rt.in_seq_worker = False
        return orig_worker(task)

    strategy_ddmin._worker = _worker

    orig_check_exprs = checker.check_exprs

    def check_exprs(exprs):
        res = orig_check_exprs(exprs)
        rt = Runtime.current
        if rt is not None:
            rt.log.append(('verdict', tokens_of_exprs(exprs), bool(res),
                           rt.worker))
            rt.stat('checks')
        return res

    checker.check_exprs = check_exprs

    orig_write = nodeio.write_smtlib_to_file

    def write_smtlib_to_file(filename, exprs):
        rt = Runtime.current
        res = orig_write(filename, exprs)
        if rt is not None:
            with open(filename, 'rb') as f:
                data = f.read()
            try:
                toks = tuple(sexp.strip_comment(t) for t in sexp.token_texts(
                    data.decode('utf-8')))
            except sexp.LexError:
                toks = ('<unlexable>', data.decode('utf-8', 'replace'))
            mem = tokens_of_exprs(exprs)
            rt.log.append(('write', toks, mem, data))
            rt.cur = hash(norm_tokens(toks))
            rt.stat('writes')
        return res

    nodeio.write_smtlib_to_file = write_smtlib_to_file

    def dup_ids(exprs):
        seen = {}
        stack = list(exprs)
        while stack:
            n = stack.pop()
            seen[n.id] = seen.get(n.id, 0) + 1
            if not isinstance(n.data, str):
                stack.extend(n.data)
        return {i: c for i, c in seen.items() if c > 1}

    orig_tg = strategy_ddmin.TaskGenerator.__init__

    def tg_init(self, exprs, gran, mutator, max_depth=None):
        rt = Runtime.current
        if rt is not None:
            rt.log.append(('generated', 'ddmin', tokens_of_exprs(exprs),
                           dup_ids(exprs), str(mutator), gran,
                           type(mutator).__name__))
        return orig_tg(self, exprs, gran, mutator, max_depth)

    strategy_ddmin.TaskGenerator.__init__ = tg_init

    orig_pr = strategy_hierarchical.Producer.__init__

    def pr_init(self, mutators, abort_flag, original):
        rt = Runtime.current
        if rt is not None:
            rt.log.append(('generated', 'hier', tokens_of_exprs(original),
                           dup_ids(original),
                           [type(m).__name__ for m in mutators], None))
            rt.k_options = [0, INF, 1, 2, 3]
        return orig_pr(self, mutators, abort_flag, original)

    strategy_hierarchical.Producer.__init__ = pr_init

    orig_par = strategy_ddmin._check_par

    def _check_par(taskgen, nexprs, stats):
        rt = Runtime.current
        if rt is not None:
            rt.par_calls += 1
            rt.k_options = [0, INF]
        return orig_par(taskgen, nexprs, stats)

    strategy_ddmin._check_par = _check_par

    # -- final in-memory input
    for mod, name in ((strategy_ddmin, 'ddmin'), (strategy_hierarchical,
                                                  'hier')):

        def mk(orig, name):

            def reduce(exprs):
                rt = Runtime.current
                res = orig(exprs)
                if rt is not None:
                    rt.final_exprs = res[0]
                    rt.log.append(('reduced', name, tokens_of_exprs(res[0]),
                                   res[1]))
                return res

            return reduce

        mod.reduce = mk(mod.reduce, name)

    # -- the pool's task-generating thread runs concurrently with the main
    # thread.  Two places where that matters are modelled as choice points:
    # (1) while the main thread rebuilds the smtlib tables (between reset and
    #     refill) the generator of a still active imap call may run;
    # (2) a TaskGenerator.__next__ that had passed its `stopped` test when
    #     the main thread ran stop()+update() finishes with the updated fields.
    from ddsmt import smtlib
    orig_reset = smtlib.reset_information

    TABLES = [n for n in vars(smtlib) if n.startswith('__') and
              not n.endswith('__') and
              isinstance(getattr(smtlib, n), (dict, set))]
    # generator positions while the tables are empty: s complete steps that
    # start inside the window (they see the abort flag as it is), or a step
    # that was under way when the main thread got here: its first K reads of
    # the abort flag happened before the flag was set, with the old tables,
    # and it resumes right after the K-th read with the empty tables
    WINDOW = [('steps', 0), ('steps', 1), ('steps', 3), ('steps', 10),
              ('steps', 40)] + [('mid', k) for k in range(1, 13)]

    def reset_information():
        rt = Runtime.current
        vi = rt.active_iter if rt is not None else None
        live = vi is not None and not vi.in_pull and not vi.done and \
            rt.worker is None
        old = {n: getattr(smtlib, n) for n in TABLES} if live else None
        orig_reset()
        if not live:
            return
        if rt.window_policy is None:
            # how the two threads are scheduled relative to each other in
            # such windows is a property of the machine: one deviation buys
            # a policy that then holds for every window of the run
            rt.window_policy = rt.choose(('window-policy', ), len(WINDOW), 0,
                                         'sched')
        c = rt.choose(('preempt-reset', ), len(WINDOW), rt.window_policy,
                      'sched')
        kind, arg = WINDOW[c]
        if kind == 'steps':
            for _ in range(arg):
                if vi.done:
                    break
                rt.stat('producer_steps_during_table_rebuild')
                vi.pull()
            return
        rt.stat('producer_step_under_way_during_table_rebuild')
        new = {n: getattr(smtlib, n) for n in TABLES}
        for n, v in old.items():
            setattr(smtlib, n, v)
        saved = (rt.reader_k, rt.reads, rt.on_read)
        swapped = []

        def on_read(reads):
            if reads == arg and not swapped:
                swapped.append(1)
                for n, v in new.items():
                    setattr(smtlib, n, v)

        rt.reader_k, rt.reads, rt.on_read = arg, 0, on_read
        try:
            while not vi.done and rt.reads <= arg:
                vi.pull()
        finally:
            rt.reader_k, rt.reads, rt.on_read = saved
            if not swapped:
                for n, v in new.items():
                    setattr(smtlib, n, v)

    smtlib.reset_information = reset_information

    orig_update = strategy_ddmin.TaskGenerator.update

    def tg_update(self, exprs):
        res = orig_update(self, exprs)
        rt = Runtime.current
        vi = rt.active_iter if rt is not None else None
        if vi is not None and vi.it is self and self.stopped and \
                not vi.in_pull and self.index < len(self.subsets):
            c = rt.choose(('late-next', ), 2, 0, 'sched')
            if c:
                rt.stat('task_built_across_stop_and_update')
                self.stopped = False
                try:
                    vi.pull()
                finally:
                    self.stopped = True
                    vi.done = False
        return res

    strategy_ddmin.TaskGenerator.update = tg_update

    # -- per-worker pid for temp file names
    class OsProxy:

        def __getattr__(self, name):
            return getattr(os, name)

        def getpid(self):
            rt = Runtime.current
            if rt is None or rt.worker is None:
                return os.getpid()
            return 100000 + rt.worker

    tmpfiles.os = OsProxy()
    _INSTALLED = True
    snapshot_module_defaults()


class _ListHandler(logging.Handler):

    def emit(self, record):
        rt = Runtime.current
        if rt is not None:
            try:
                rt.messages.append((record.levelname, record.getMessage()))
            except Exception:  # noqa
                pass


_HANDLER = None


_MODULE_DEFAULTS = None


def _simple(v):
    return v is None or isinstance(v, (str, int, float, bool))


def snapshot_module_defaults():
    """Remember the simple module-level values of every ddsmt module as they
    are right after import, so that state a run leaves in them (caches,
    memoised names, counters) cannot leak into the next execution."""
    global _MODULE_DEFAULTS
    if _MODULE_DEFAULTS is not None:
        return
    _MODULE_DEFAULTS = {}
    for name, mod in list(sys.modules.items()):
        if name.startswith('ddsmt.') and mod is not None and \
                not name.startswith('ddsmt.tests'):
            _MODULE_DEFAULTS[name] = {
                k: v for k, v in mod.__dict__.items()
                if k.startswith('__') and not k.endswith('__') and _simple(v)
            }


def restore_module_defaults():
    for name, vals in (_MODULE_DEFAULTS or {}).items():
        mod = sys.modules.get(name)
        if mod is not None:
            mod.__dict__.update(vals)


def reset_process_state():
    from ddsmt import (checker, debug_utils, options, progress, smtlib,
                       strategy_ddmin, tmpfiles)
    global _HANDLER
    restore_module_defaults()
    options.__dict__['__PARSED_ARGS'] = None
    debug_utils.Profiler.enabled = False
    debug_utils.__dict__['__DIFF_ID'] = 0
    for g in ('__cached_exprs', '__cached_exprs_hash', '__abort_flag'):
        strategy_ddmin.__dict__[g] = None
    strategy_ddmin.__dict__['__last_msg'] = ''
    checker.__dict__['__GOLDEN'] = None
    checker.__dict__['__GOLDEN_CC'] = None
    progress.__dict__['__MAX_VAL'] = None
    t = tmpfiles.__dict__.get('__TMPDIR')
    if t is not None:
        try:
            t.cleanup()
        except Exception:  # noqa
            pass
        tmpfiles.__dict__['__TMPDIR'] = None
    smtlib.reset_information()
    common.reset_ids(0)
    root = logging.getLogger()
    if _HANDLER is None:
        _HANDLER = _ListHandler()
    for h in list(root.handlers):
        if h is not _HANDLER:
            root.removeHandler(h)
    if _HANDLER not in root.handlers:
        root.addHandler(_HANDLER)


class Exec:
    """What one execution did."""
    pass


_WORKDIR = None
_WORKDIR_PID = None


def workdir():
    global _WORKDIR, _WORKDIR_PID
    if _WORKDIR is None or _WORKDIR_PID != os.getpid() or \
            not os.path.isdir(_WORKDIR):
        _WORKDIR_PID = os.getpid()
        _WORKDIR = tempfile.mkdtemp(prefix=f'ddv-sched-{os.getpid()}-',
                                    dir=common.scratch_root())
        import atexit
        atexit.register(shutil.rmtree, _WORKDIR, True)
    return _WORKDIR


def run_once(scn, ch, fault=None, before_main=None):
    """One execution of ddsmt.__main__.main() for scenario ``scn`` under the
    choices of ``ch``.  Returns an Exec."""
    common.import_ddsmt()
    install()
    from . import graph
    graph.Meter.install()
    from ddsmt import __main__ as ddmain
    from ddsmt import tmpfiles
    d = workdir()
    for name in os.listdir(d):
        p = os.path.join(d, name)
        if os.path.isdir(p):
            shutil.rmtree(p, ignore_errors=True)
        else:
            os.unlink(p)
    ext = scn.get('ext', '.smt2')
    infile = os.path.join(d, 'in' + ext)
    outfile = os.path.join(d, 'out' + scn.get('outext', '.smt2'))
    cmd = os.path.join(d, 'cmd.sh')
    cc = os.path.join(d, 'cc.sh')
    with open(infile, 'w') as f:
        f.write(scn['input'])
    for p in (cmd, cc):
        with open(p, 'w') as f:
            f.write('#!/bin/sh\nexit 0\n')
        os.chmod(p, 0o755)
    tmp = os.path.join(d, 'tmp')
    os.mkdir(tmp)
    tempfile.tempdir = tmp
    argv = ['ddsmt'] + list(scn.get('argv', []))
    if scn.get('cc_model') is not None:
        argv += ['-c', cc]
    argv += [infile, outfile, cmd]
    reset_process_state()
    rt = Runtime(scn, ch)
    rt.in_seq_worker = False
    rt.fault = fault
    with open(infile, 'rb') as f:
        in_bytes = f.read()
    rt.input_tokens = norm_tokens(sexp.token_texts(scn['input']))
    rt.cur = hash(rt.input_tokens)
    x = Exec()
    x.scn = scn
    x.rt = rt
    x.infile, x.outfile, x.tmp = infile, outfile, tmp
    saved_argv = sys.argv
    sys.argv = argv
    Runtime.current = rt
    out, err = io.StringIO(), io.StringIO()
    old_out, old_err = sys.stdout, sys.stderr
    sys.stdout, sys.stderr = out, err
    x.crash = None
    x.rc = None
    x.sysexit = False
    x.pruned = False
    x.hard_exit = False
    real_exit = os._exit

    def fake_exit(code=0):
        raise HardExit(code)

    os._exit = fake_exit
    import threading
    real_start = threading.Thread.start
    pending = []
    rt.pending_threads = pending

    def controlled_start(self):
        # a thread started by the code under test from the main thread: run
        # its body now (what a sequential reading of the code suggests) or,
        # as a schedule deviation, only when main() is about to return
        if Runtime.current is rt and \
                threading.current_thread() is threading.main_thread():
            c = rt.choose(('thread-start', len(pending)), 2, 0, 'sched')
            rt.stat('threads_started_by_code_under_test')
            if c == 0:
                self.run()
            else:
                pending.append(self)
            self._started.set()
            self._is_stopped = True
            return
        return real_start(self)

    threading.Thread.start = controlled_start
    try:
        if before_main:
            before_main(rt)
        try:
            x.rc = ddmain.main()
        except HardExit as e:
            x.rc = e.code
            x.hard_exit = True
        except SystemExit as e:
            x.rc = e.code if isinstance(e.code, int) else 1
            x.sysexit = True
        except explore.Pruned:
            x.pruned = True
        except explore.ReplayDivergence:
            raise
        except common.HarnessError:
            raise
        except BaseException as e:  # noqa
            import traceback
            x.crash = (type(e).__name__, str(e),
                       ''.join(traceback.format_exception(
                           type(e), e, e.__traceback__))[-1500:])
        # deferred threads of the code under test run when main() is done
        for th in pending:
            try:
                th.run()
            except Exception:  # noqa
                pass
    finally:
        os._exit = real_exit
        threading.Thread.start = real_start
        sys.stdout, sys.stderr = old_out, old_err
        sys.argv = saved_argv
        Runtime.current = None
        tempfile.tempdir = None
    x.stdout, x.stderr = out.getvalue(), err.getvalue()
    x.log = rt.log
    x.messages = rt.messages
    with open(infile, 'rb') as f:
        x.input_unchanged = (f.read() == in_bytes)
    if os.path.exists(outfile):
        with open(outfile, 'rb') as f:
            x.out_bytes = f.read()
    else:
        x.out_bytes = None
    t = tmpfiles.__dict__.get('__TMPDIR')
    x.tmpdir_name = t.name if t is not None else None
    if x.hard_exit:
        # no finalizer would have run: what is there now stays behind
        x.tmp_left = sorted(os.listdir(tmp))
    if t is not None:
        t.cleanup()
        tmpfiles.__dict__['__TMPDIR'] = None
    if not x.hard_exit:
        x.tmp_left = sorted(os.listdir(tmp))
    return x


# --------------------------------------------------------------------------
# derived views of an execution


def accepted_chain(x):
    """Token sequences written to the output file, in order."""
    return [e[1] for e in x.log if e[0] == 'write']


def out_tokens(x):
    if x.out_bytes is None:
        return None
    try:
        return tuple(sexp.strip_comment(t) for t in sexp.token_texts(
            x.out_bytes.decode('utf-8')))
    except sexp.LexError:
        return ('<unlexable>', )


# --------------------------------------------------------------------------
# exploring scenarios in parallel


def explore_scenarios(scenarios, judge, budgets_of, want=48, max_execs=None):
    """Explore every scenario's choice tree within its budgets on all cores.

    judge(part, scn, x) evaluates the oracles on execution x and records into
    the partial result.  Returns the merged list of parts."""

    def stage1(idx):
        scn = scenarios[idx]
        part = common.part_result()
        part['sets'] = {'states': set(), 'transitions': set(),
                        'outcomes': set()}

        def run(ch):
            return run_once(scn, ch)

        def on_exec(ch, x):
            account(part, scn, ch, x)
            judge(part, scn, x)

        if scn.get('prune'):
            # pruning needs one visited-state table per scenario: explore the
            # whole tree in this process
            _VISITED.clear()
            n, capped = explore.explore(run, budgets_of(scn), on_exec,
                                        max_execs=max_execs)
            if capped:
                part['caps'].append(f'scenario {scn["name"]}: capped at '
                                    f'{n} executions')
            return part, []
        open_, n = explore.frontier(run, budgets_of(scn), on_exec, want=want)
        return part, [(idx, p) for p in open_]

    def stage2(item):
        idx, prefix = item
        scn = scenarios[idx]
        part = common.part_result()
        part['sets'] = {'states': set(), 'transitions': set(),
                        'outcomes': set()}

        def run(ch):
            return run_once(scn, ch)

        def on_exec(ch, x):
            account(part, scn, ch, x)
            judge(part, scn, x)

        # the cap is per scenario: a subtree gets its share
        sub = None if max_execs is None else max(50, max_execs // want)
        n, capped = explore.explore(run, budgets_of(scn), on_exec,
                                    max_execs=sub, roots=[prefix])
        if capped:
            part['caps'].append(
                f'scenario {scn["name"]}: subtree capped at {n} executions')
        return part

    order = sorted(range(len(scenarios)),
                   key=lambda i: (-budgets_of(scenarios[i]).get('sched', 0),
                                  -len(scenarios[i]['input'])))
    r1 = common.pmap(stage1, order, init=_init_worker)
    parts = [p for p, _ in r1]
    work = [w for _, ws in r1 for w in ws]
    # interleave scenarios for load balance
    work.sort(key=lambda w: (len(w[1]), w[0]))
    parts += common.pmap(stage2, work, init=_init_worker)
    return parts


def _init_worker():
    common.import_ddsmt()
    install()
    from . import graph
    graph.Meter.install()


def account(part, scn, ch, x):
    rt = x.rt
    common.pcount(part, 'executions')
    if x.pruned:
        common.pcount(part, 'executions_cut_at_a_visited_state')
    common.pcount(part, 'choice_points', rt.n_points)
    dev = ch.deviations()
    for k, v in dev.items():
        common.pcount(part, f'executions_with_{k}_deviations_{v}')
    for k, v in rt.stats.items():
        common.pcount(part, k, v)
    if rt.stats.get('fin_while_result_pending'):
        common.pcount(part, 'executions_with_two_results_in_flight')
    if rt.par_calls:
        common.pcount(part, 'executions_using_check_par')
    s = part['sets']
    s['states'] |= rt.states
    s['transitions'] |= rt.transitions
    chain = tuple(hash(t) for t in accepted_chain(x))
    s['outcomes'].add(hash((scn['name'], chain, x.out_bytes)))
    if len(part['samples']) < 2 and dev:
        part['samples'].append({
            'scenario': scn['name'],
            'argv': scn.get('argv'),
            'schedule': [c for _, c in ch.vector()][:80],
            'accepted_chain_lengths': [len(t) for t in accepted_chain(x)],
            'output': (x.out_bytes or b'').decode('utf-8', 'replace')[:300]
        })


def merge_parts(rep, parts):
    states, transitions, outcomes = set(), set(), set()
    for p in parts:
        s = p.pop('sets', None)
        if s:
            states |= s['states']
            transitions |= s['transitions']
            outcomes |= s['outcomes']
        rep.merge(p)
    rep.set('states', len(states))
    rep.set('transitions', len(transitions))
    rep.set('distinct_outcomes', len(outcomes))
    return states, transitions, outcomes


def selftest():
    return True
